#!/bin/bash
# Runs the quick check of every claimed property against /repo's working tree; prints one line each; exit 1 if any alarms.
# Run before every commit in /verif or hook commit in /repo. With -relock, refreshes obligations.lock first (only after
# contract edits: the lock is what detects obligations that silently disappear when the code changes).
cd /verif
props=$(python3 -c "import json;print(' '.join(sorted(json.load(open('tools/claimed.json')).keys())))")
if [ "${1:-}" = "-relock" ]; then for p in $props; do bin/govc lock -p $p >/dev/null 2>&1; done; fi
rc=0
for p in $props; do
  out=$(bin/govc check -p $p 2>&1); r=$?
  echo "$p exit=$r $(echo "$out" | tail -1 | cut -c1-170)"
  [ $r -ne 0 ] && { rc=1; echo "$out" | grep -E "^VIOLATION|^  " | head -5; }
done
exit $rc
