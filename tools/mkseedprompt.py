#!/usr/bin/env python3
# usage: mkseedprompt.py <name e.g. C05-4> "<what earlier seeds of this property changed>"  -> prints the prompt for a seeding sub-agent
import json, sys
name, prev = sys.argv[1], sys.argv[2] if len(sys.argv) > 2 else ""
pid = name.split('-')[0]
prop = None
for l in open('/verif/properties.jsonl'):
    p = json.loads(l)
    if p['id'] == pid:
        prop = p
t = open('/verif/tools/seed_prompt_template.txt').read()
extra = ""
if prev:
    extra += "Earlier exercises on this property already used the following changes; do something DIFFERENT in kind and place:\n" + prev + "\n\n"
extra += ("While you read the code, also look for places where the UNMODIFIED code already violates the property. "
          "Verify each by running it (a throw-away test in the worktree, removed afterwards) and record it in notes.md under the heading "
          "'Side observations on the unmodified code' with the exact input, what is observed and what the property requires. "
          "These observations are as valuable as the seeded change.")
a = prop['anchors']
anchors = "files: " + ", ".join(a.get('files', [])) + "; mechanisms: " + "; ".join(m['name'] + " (" + m['where'] + ")" for m in a.get('mechanism', []))
print(t.format(wt="/tmp/seed-" + name, id=pid, title=prop['title'], statement=prop['statement'], quant=prop['quantifier']['text'],
               why=prop['why_tests_cant'], anchors=anchors, extra=extra))
