#!/bin/bash
# Must-fail / must-pass corpus. For every selftest/mutants/<Cxx>_*.patch: apply it to a scratch worktree of /repo,
# run the check of property Cxx against that tree, and require exit 1 with a VIOLATION line. For every
# selftest/harmless/<Cxx>_*.patch: require exit 0. Evidence and replay files of these runs go to a scratch directory.
# usage: tools/selftest.sh [pattern]
set -u
export GOFLAGS=-mod=mod GOPROXY=off
WT=/tmp/govc-selftest.$$
OUT=/tmp/govc-selftest-out.$$
pat="${1:-}"
trap 'git -C /repo worktree remove --force $WT >/dev/null 2>&1; rm -rf $WT $OUT' EXIT
git -C /repo worktree add --detach $WT HEAD >/dev/null 2>&1 || { echo "cannot create worktree"; exit 2; }
mkdir -p $OUT
fail=0
run() { # kind patch
  kind=$1; p=$2
  base=$(basename $p .patch)
  prop=${base%%_*}
  git -C $WT checkout -q -- . && git -C $WT clean -fdq
  if ! git -C $WT apply $p 2>/dev/null; then echo "SKIP $base (patch does not apply)"; return; fi
  (cd $WT && go build ./... >/dev/null 2>&1) || { echo "SKIP $base (does not compile)"; return; }
  GOVC_REPO=$WT GOVC_OUT=$OUT /verif/bin/govc check -p $prop > $OUT/$base.out 2> $OUT/$base.err
  rc=$?
  if [ $kind = mutant ]; then
    if [ $rc -eq 1 ] && grep -q "^VIOLATION property=$prop" $OUT/$base.out; then
      echo "ok   $base: detected ($(grep -c '^VIOLATION' $OUT/$base.out) violation lines; first: $(grep -m1 '^  ' $OUT/$base.err | cut -c1-150))"
    else
      echo "MISS $base: exit $rc"; fail=1
    fi
  else
    if [ $rc -eq 0 ]; then echo "ok   $base: no alarm"; else echo "FALSE-ALARM $base: exit $rc: $(grep -m2 '^  ' $OUT/$base.err | cut -c1-200)"; fail=1; fi
  fi
}
for p in /verif/selftest/mutants/*${pat}*.patch; do [ -f "$p" ] && run mutant $p; done
for p in /verif/selftest/harmless/*${pat}*.patch; do [ -f "$p" ] && run harmless $p; done
exit $fail
