#!/bin/bash
# Must-fail / must-pass corpus. For every selftest/mutants/<Cxx>_*.patch: apply it to a scratch worktree of /repo,
# run the check of property Cxx against that tree, and require exit 1 with a VIOLATION line. For every
# selftest/harmless/<Cxx>_*.patch: require exit 0. Evidence and replay files of these runs go to a scratch directory.
# usage: tools/selftest.sh [pattern]      (SELFTEST_JOBS=n patches are handled concurrently, default 3)
set -u
export GOFLAGS=-mod=mod GOPROXY=off
pat="${1:-}"
jobs="${SELFTEST_JOBS:-3}"
# the checks running side by side share the cores: each gets its part of the solver processes
export GOVC_PAR="${GOVC_PAR:-$(( ($(nproc) + jobs - 1) / jobs ))}"
one() { # kind patch
  kind=$1; p=$2
  base=$(basename $p .patch)
  prop=${base%%_*}
  WT=/tmp/govc-selftest.$$.$base
  OUT=/tmp/govc-selftest-out.$$.$base
  git -C /repo worktree add --detach $WT HEAD >/dev/null 2>&1 || { echo "ERR  $base: cannot create worktree"; return; }
  mkdir -p $OUT
  if ! git -C $WT apply $p 2>/dev/null; then echo "SKIP $base (patch does not apply)"
  elif ! (cd $WT && go build ./... >/dev/null 2>&1); then echo "SKIP $base (does not compile)"
  else
    GOVC_REPO=$WT GOVC_OUT=$OUT ${GOVC_BIN:-/verif/bin/govc} check -p $prop > $OUT/out 2> $OUT/err
    rc=$?
    if [ $kind = mutant ]; then
      if [ $rc -eq 1 ] && grep -q "^VIOLATION property=$prop" $OUT/out; then
        echo "ok   $base: detected ($(grep -c '^VIOLATION' $OUT/out) violation lines; first: $(grep -m1 '^  ' $OUT/err | cut -c1-150))"
      else
        echo "MISS $base: exit $rc"
      fi
    else
      if [ $rc -eq 0 ]; then echo "ok   $base: no alarm"; else echo "FALSE-ALARM $base: exit $rc: $(grep -m2 '^  ' $OUT/err | cut -c1-200)"; fi
    fi
  fi
  git -C /repo worktree remove --force $WT >/dev/null 2>&1; rm -rf $WT $OUT
}
export -f one
res=/tmp/govc-selftest-res.$$
{
  for p in /verif/selftest/mutants/*${pat}*.patch; do [ -f "$p" ] && echo "mutant $p"; done
  for p in /verif/selftest/harmless/*${pat}*.patch; do [ -f "$p" ] && echo "harmless $p"; done
} | xargs -P $jobs -L 1 bash -c 'one $0 $1' > $res
cat $res
rc=0; grep -q "^MISS\|^FALSE-ALARM\|^ERR" $res && rc=1
rm -f $res
exit $rc
