#!/bin/bash
# Re-runs the registered check of a filed seed against /repo with its patch applied (and undoes the patch).
# usage: retest_seed.sh <name> [property]   - prints the exit code and the first failed obligation; updates meta.json
set -u
export GOFLAGS=-mod=mod GOPROXY=off
name=$1
dir=/verif/seeded/$name
prop=${2:-$(python3 -c "import json;print(json.load(open('$dir/meta.json'))['breaks_property'])")}
git -C /repo diff --quiet || { echo "/repo has uncommitted changes: commit them first"; exit 2; }
git -C /repo apply $dir/patch.diff || { echo "patch does not apply any more"; exit 2; }
out=$(cd /verif && GOVC_OUT=/tmp/retest-out.$$ bin/govc check -p $prop 2>&1); rc=$?
git -C /repo apply -R $dir/patch.diff
rm -rf /tmp/retest-out.$$
first=$(echo "$out" | grep -m1 "^  " | sed 's/^  //' | cut -c1-200)
echo "$name ($prop): check exit=$rc; $(echo "$out" | grep -c '^VIOLATION') violation lines; first: $first"
python3 - "$dir/meta.json" "$rc" "$first" "$(echo "$out" | grep -c '^VIOLATION')" <<'P'
import json,sys
p,rc,first,n=sys.argv[1:5]
m=json.load(open(p))
m['recheck_result']={'exit':int(rc),'violation_lines':int(n),'first_failed_obligation':first.split(': ')[0] if first else ''}
json.dump(m,open(p,'w'),indent=1)
P
