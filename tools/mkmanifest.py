#!/usr/bin/env python3
"""Regenerates /verif/MANIFEST.json from the table below (claimed properties) and properties.jsonl."""
import json, subprocess

BASE = json.load(open('/root/.vp/BASELINE.json'))
props = [json.loads(l) for l in open('/verif/properties.jsonl')]

NA_PRINCIPLE = {
 'C03': 'needs a formal Go type system as specification of the whole 9 kloc checker; no function-level contract expresses agreement with go/types',
 'C08': 'validity w.r.t. the JS/JSON grammars of reflectively produced output; a contract would consist almost entirely of assumed stubs (strconv, reflect)',
 'C10': 'data-race freedom and equality of run histories are interleaving properties; a sequential contract verifier has no concurrency model',
 'C11': 'liveness across goroutines and blocking reflect.Select; outside contract-based deductive verification',
 'C14': 'quantifies over schedules; no thread model in the verifier',
 'C27': 'relational property of the printer and a 3 kloc recursive-descent parser; no local contract expresses it',
}

# property -> (level text, level_note, technique)
CLAIMED = json.load(open('/verif/tools/claimed.json'))

checks = []
for p in props:
    pid = p['id']
    if pid not in CLAIMED:
        continue
    c = CLAIMED[pid]
    checks.append({
        'property_id': pid,
        'quick_cmd': f'/verif/bin/govc check -p {pid} -tier quick',
        'thorough_cmd': f'/verif/bin/govc check -p {pid} -tier thorough',
        'evidence_file': f'/verif/evidence/{pid}.json',
        'replay_cmd_template': '/verif/bin/govc replay {path}',
        'engine': 'govc',
        'level_claimed': {'category': 'proof', 'text': c['text'], 'design_ref': c.get('design_ref', 'DESIGN.md section 5 ' + pid)},
        'level_note': c['note'],
        'technique': c.get('technique', 'contract-based deductive verification: weakest-precondition style VC generation over go/ast+go/types (govc), discharged by z3/cvc5'),
    })

hooks = subprocess.run(['git', '-C', '/repo', 'log', '--format=%H %s'], capture_output=True, text=True).stdout.splitlines()
hook_commits = [l.split()[0] for l in hooks if l.split(' ', 1)[1].startswith('verif')]

m = {
 'version': 1,
 'setup_cmd': 'cd /verif/engine && GOFLAGS=-mod=mod GOPROXY=off go build -o /verif/bin/govc .',
 'hooks': {
   'guard': 'verif',
   'enable': 'build tag `verif`: per-package contract files zz_contracts_verif.go (//@ contract comments + executable spec functions), read by govc with -tags=verif',
   'baseline_off_cmd': BASE['cmd'],
   'source_commits': hook_commits,
   'add_only': True,
 },
 'engines': [{'name': 'govc', 'path': '/verif/engine', 'serves_properties': sorted(CLAIMED.keys()),
              'kind_free_text': 'VC generator over go/ast+go/types for //@ contracts on the real functions in /repo; obligations discharged by z3 5.1.0 / z3 4.8.12 / cvc5 1.0.3'}],
 'checks': checks,
 'notes': 'See DESIGN.md. Exit 0 = every claimed obligation discharged; exit 1 + VIOLATION line = an obligation failed; exit 2 = check error (vacuous unit, load failure of the verifier itself).',
 'not_applicable': [{'property_id': p['id'], 'reason': NA_PRINCIPLE.get(p['id'], 'in reach of the technique, not built (see DESIGN.md section 8)')} for p in props if p['id'] not in CLAIMED],
}
json.dump(m, open('/verif/MANIFEST.json', 'w'), indent=1)
print('claimed:', sorted(CLAIMED.keys()))
