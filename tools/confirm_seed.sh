#!/bin/bash
# Confirms a seeded change delivered by a sub-agent and files it under /verif/seeded/<name>/.
# usage: confirm_seed.sh <name> <property> <OUT dir> <demo file> <package dir for demo (relative to repo root)> [test -run pattern]
# Steps (all in a scratch worktree outside /repo and /verif, removed afterwards):
#   1. the patch applies and the tree builds;  2. the existing suite of the main module passes with the patch;
#   3. the demonstration fails with the patch and passes without it;
#   4. the registered check of the property is run against /repo with the patch applied (and the patch is undone).
set -u
export GOFLAGS=-mod=mod GOPROXY=off
name=$1; prop=$2; out=$3; demo=$4; pkgdir=$5; pat=${6:-.}
WT=/tmp/confirm-seed.$$
dst=/verif/seeded/$name
trap 'git -C /repo worktree remove --force $WT >/dev/null 2>&1; rm -rf $WT' EXIT
git -C /repo worktree add --detach $WT HEAD >/dev/null 2>&1 || exit 2
log=$(mktemp)
ok=1
( cd $WT && git apply $out/patch.diff ) || { echo "patch does not apply"; exit 1; }
( cd $WT && go build ./... ) >>$log 2>&1 || { echo "does not build"; ok=0; }
echo "== existing suite with the patch (main module) ==" >>$log
( cd $WT && go test -count=1 ./... 2>&1 | grep -v "no test files" ) >>$log 2>&1
if grep -q "^FAIL\|^--- FAIL" $log; then echo "EXISTING SUITE FAILS with the patch"; ok=0; fi
cp $demo $WT/$pkgdir/zz_seed_demo_test.go
echo "== demo WITH the patch ==" >>$log
( cd $WT/$pkgdir && timeout 120 go test -count=1 -run "$pat" . ) > $log.with 2>&1; rcw=$?
cat $log.with >>$log
( cd $WT && git apply -R $out/patch.diff )
echo "== demo WITHOUT the patch ==" >>$log
( cd $WT/$pkgdir && timeout 120 go test -count=1 -run "$pat" . ) > $log.without 2>&1; rco=$?
cat $log.without >>$log
echo "demo: with patch rc=$rcw, without patch rc=$rco"
[ $rcw -ne 0 ] && [ $rco -eq 0 ] || { echo "DEMO does not discriminate"; ok=0; }
# run the registered check against /repo with the patch applied
git -C /repo apply $out/patch.diff
( cd /verif && GOVC_OUT=/tmp/confirm-out.$$ bin/govc check -p $prop ) > $log.check 2>&1; rcc=$?
git -C /repo apply -R $out/patch.diff
rm -rf /tmp/confirm-out.$$
grep -E "^VIOLATION|^govc:" $log.check | cut -c1-220 | head -8
echo "check exit=$rcc"
mkdir -p $dst
cp $out/patch.diff $dst/patch.diff
cp $demo $dst/$(basename $demo)
[ -f $out/notes.md ] && cp $out/notes.md $dst/agent_notes.md
viol=$(grep -c "^VIOLATION" $log.check)
first=$(grep -m1 "^  " $log.check | cut -c1-300)
python3 - "$dst" "$name" "$prop" "$pkgdir" "$(basename $demo)" "$rcw" "$rco" "$rcc" "$viol" "$first" "$ok" <<'EOF'
import json,sys
dst,name,prop,pkgdir,demo,rcw,rco,rcc,viol,first,ok=sys.argv[1:]
meta={"name":name,"breaks_property":prop,"patch":"patch.diff","demonstration":demo,"demonstration_package_dir":pkgdir,
 "confirmed":{"builds_and_existing_main_module_suite_passes_with_patch": ok=="1","demo_exit_with_patch":int(rcw),"demo_exit_without_patch":int(rco)},
 "what_was_run":["git worktree add (scratch) ; git apply patch.diff ; go build ./... ; go test -count=1 ./... (main module)",
   "demo copied into "+pkgdir+" as zz_seed_demo_test.go ; go test -run <pattern> . with and without the patch",
   "git -C /repo apply patch.diff ; /verif/bin/govc check -p "+prop+" ; git -C /repo checkout -- ."],
 "check_result":{"exit":int(rcc),"violation_lines":int(viol),"first_failed_obligation":first},
 "needs_to_manifest":"see agent_notes.md"}
json.dump(meta,open(dst+"/meta.json","w"),indent=1)
EOF
cp $log $dst/confirm.log
rm -f $log $log.with $log.without $log.check
[ $ok -eq 1 ] && echo "CONFIRMED $name (check exit $rcc)" || echo "NOT CONFIRMED $name"
