#!/bin/bash
# Prepares a scratch worktree of /repo for a seeding sub-agent: no contract files, nothing from /verif.
# usage: mkseedwt.sh <name>   -> /tmp/seed-<name> (worktree), /tmp/seed-<name>-out (where the agent leaves patch.diff, demo, notes.md)
set -eu
name=$1
WT=/tmp/seed-$name
git -C /repo worktree add --detach $WT HEAD >/dev/null 2>&1
( cd $WT && git rm -q $(git ls-files | grep zz_contracts_verif.go) && git -c user.name=seed -c user.email=seed@x commit -q -m "scratch: without contract files" )
mkdir -p $WT-out
echo $WT
