package main

import (
	"runtime"
	"fmt"
	"go/ast"
	"go/token"
	"go/types"
	"os"
	"path/filepath"
	"sort"
	"strings"
	"sync"
	"time"
)

type UnitResult struct {
	Name        string
	Pkg         string
	Contract    *Contract
	Obligs      []*Oblig
	Err         string // unsupported construct etc.
	Abstracted  []string
	Stubs       []string
	Callees     []string
	Inlined     []string
	Notes       []string
	Mode        string
	GenMs       int64
	Assumed     []string // assume clauses (unproved)
	engine      *Engine
}

// prepass: boxed variables and closure bindings
func (e *Engine) prepass(body ast.Node) {
	// closures bound once to a local
	assigned := map[types.Object]int{}
	ast.Inspect(body, func(n ast.Node) bool {
		switch s := n.(type) {
		case *ast.AssignStmt:
			for i, l := range s.Lhs {
				id, ok := l.(*ast.Ident)
				if !ok {
					continue
				}
				obj := e.pk.Info.ObjectOf(id)
				if obj == nil {
					continue
				}
				assigned[obj]++
				if i < len(s.Rhs) && len(s.Lhs) == len(s.Rhs) {
					if lit, ok := unparen(s.Rhs[i]).(*ast.FuncLit); ok {
						e.closureBind[obj] = lit
					}
				}
			}
		case *ast.UnaryExpr:
			if s.Op == token.AND {
				if id, ok := unparen(s.X).(*ast.Ident); ok {
					if obj, ok := e.pk.Info.ObjectOf(id).(*types.Var); ok && obj.Parent() != obj.Pkg().Scope() {
						e.boxed[obj] = true
					}
				}
			}
		}
		return true
	})
	for obj := range e.closureBind {
		if assigned[obj] > 1 {
			delete(e.closureBind, obj)
		}
	}
	// variables assigned inside a closure but declared outside it: boxed so effects are shared
	ast.Inspect(body, func(n ast.Node) bool {
		lit, ok := n.(*ast.FuncLit)
		if !ok {
			return true
		}
		ast.Inspect(lit.Body, func(m ast.Node) bool {
			var lhs []ast.Expr
			switch s := m.(type) {
			case *ast.AssignStmt:
				lhs = s.Lhs
			case *ast.IncDecStmt:
				lhs = []ast.Expr{s.X}
			}
			for _, l := range lhs {
				if id, ok := unparen(l).(*ast.Ident); ok {
					if obj, ok := e.pk.Info.ObjectOf(id).(*types.Var); ok && obj.Pkg() != nil && obj.Parent() != obj.Pkg().Scope() {
						if obj.Pos() < lit.Pos() || obj.Pos() > lit.End() {
							// captured variable written in closure: only needs boxing when the closure escapes;
							// closures we inline share the caller's state directly, so no boxing is needed.
							_ = obj
						}
					}
				}
			}
			return true
		})
		return true
	})
}

func runUnit(w *World, pk *Pkg, c *Contract) (res *UnitResult) {
	t0 := time.Now()
	e := newEngine(w, pk, c)
	res = &UnitResult{Name: pkgShort(pk.Path) + "." + c.Name, Pkg: pk.Path, Contract: c, Mode: c.Mode, engine: e}
	defer func() {
		if r := recover(); r != nil {
			if ue, ok := r.(unsupportedErr); ok {
				res.Err = ue.msg
			} else {
				panic(r)
			}
		}
		e.implAxioms()
		res.Obligs = e.obligs
		res.Abstracted = e.abstracted
		res.Notes = e.notes
		for s := range e.stubsUsed {
			res.Stubs = append(res.Stubs, s)
		}
		sort.Strings(res.Stubs)
		for s := range e.calleeContracts {
			res.Callees = append(res.Callees, s)
		}
		sort.Strings(res.Callees)
		for s := range e.inlined {
			res.Inlined = append(res.Inlined, s)
		}
		sort.Strings(res.Inlined)
		res.GenMs = time.Since(t0).Milliseconds()
	}()
	decl := c.Decl
	if c.Frame != "" {
		e.runFrame(pk, c)
		return res
	}
	if c.MapLoop {
		for i, l := range pk.Loops[decl] {
			e.loopOrd[l] = i
		}
		e.runMapLoop(pk, c)
		return res
	}
	// loop ordinals
	var loops []ast.Stmt
	if c.Clause == nil {
		loops = pk.Loops[decl]
	} else {
		for _, s := range c.Clause.Body {
			ast.Inspect(s, func(n ast.Node) bool {
				switch n.(type) {
				case *ast.ForStmt, *ast.RangeStmt:
					loops = append(loops, n.(ast.Stmt))
				}
				return true
			})
		}
	}
	for i, l := range loops {
		e.loopOrd[l] = i
	}
	e.prepass(decl.Body)

	st := &State{pc: "true", vars: map[any]Value{}, heaps: map[string]string{}}
	st.top = e.fresh("top", e.isort())
	e.assume("true", e.le(e.izero(), st.top))
	fr := &frame{fn: c.Name, contract: c, decl: decl}
	e.fr = fr
	bindIn := func(id *ast.Ident, nonNil bool) {
		obj := pk.Info.Defs[id]
		if obj == nil || id.Name == "_" {
			return
		}
		v := e.havocValue("p_"+id.Name, obj.Type())
		e.refBound(st, v)
		if nonNil {
			if _, ok := obj.Type().Underlying().(*types.Pointer); ok {
				e.assume("true", e.lt(e.izero(), v.T))
			}
		}
		e.inputs[obj] = v
		if sig, ok := types.Unalias(obj.Type()).Underlying().(*types.Signature); ok {
			st.vars[e.ghostKey("ncalls", obj)] = Value{e.izero(), types.Typ[types.Int]}
			if sig.Results().Len() > 0 {
				st.vars[e.ghostKey("lastret", obj)] = e.zero(sig.Results().At(0).Type())
			}
		}
		if e.boxed[obj] {
			e.declVar(st, obj, v)
		} else {
			st.vars[obj] = v
		}
	}
	if c.Clause == nil {
		if decl.Recv != nil {
			for _, f := range decl.Recv.List {
				for _, id := range f.Names {
					bindIn(id, true)
				}
			}
		}
		for _, f := range decl.Type.Params.List {
			for _, id := range f.Names {
				bindIn(id, false)
			}
		}
		e.bindResults(fr, decl, pk, st)
	} else {
		// clause unit: the receiver of the enclosing method is non-nil; everything else is lazily havocked.
		// A `return` inside the clause sets the function's results (`result`, `result1`, ... in postconditions; a
		// path that leaves the clause without returning leaves them at their zero values).
		if c.Lit != nil {
			e.bindResultsOf(fr, c.Lit.Type, pk, st)
		} else {
			e.bindResults(fr, decl, pk, st)
		}
		if decl.Recv != nil {
			for _, f := range decl.Recv.List {
				for _, id := range f.Names {
					bindIn(id, true)
				}
			}
		}
	}
	if dt := c.Opts["dyntype"]; dt != "" {
		// `opt dyntype PARAM TYPE`: the interface parameter holds a value of exactly this dynamic type
		f := strings.Fields(dt)
		if len(f) != 2 {
			panic(unsupportedErr{"opt dyntype PARAM TYPE"})
		}
		var pobj types.Object
		for _, fl := range decl.Type.Params.List {
			for _, id := range fl.Names {
				if id.Name == f[0] {
					pobj = pk.Info.Defs[id]
				}
			}
		}
		t := e.lookupTypeExpr(pk, f[1])
		if pobj == nil || t == nil {
			panic(unsupportedErr{"opt dyntype: unknown parameter or type " + dt})
		}
		pv := e.havocValue("dyn_"+f[0], t)
		e.refBound(st, pv)
		bv := Value{e.box(pv), pobj.Type()}
		e.inputs[pobj] = bv
		if e.boxed[pobj] {
			e.declVar(st, pobj, bv)
		} else {
			st.vars[pobj] = bv
		}
	}
	if c.Opts["ghostvisit"] != "" {
		e.ghostInit(st)
	}
	e.entry = st.clone()
	// requires / assumes
	for _, rq := range c.Requires {
		e.spec++
		v := e.ev(rq.Expr, st)
		e.spec--
		st.pc = and(st.pc, v.T)
	}
	for _, as := range c.Assumes {
		e.spec++
		v := e.ev(as.Expr, st)
		e.spec--
		st.pc = and(st.pc, v.T)
		res.Assumed = append(res.Assumed, as.Text)
	}
	if len(st.pc) > 200 {
		b := e.fresh("pre", "Bool")
		e.assumes = append(e.assumes, eq(b, st.pc))
		st.pc = b
	}
	e.entry.pc = st.pc
	e.canary(st, "entry", decl.Pos())
	if c.Trusted {
		return res
	}
	var end *State
	if c.Clause == nil {
		end = e.execBlock(decl.Body.List, st)
	} else {
		lf := e.pushLoop("", false) // a break inside the clause leaves the switch
		end = e.execBlock(c.Clause.Body, st)
		e.popLoop()
		end = e.merge(append([]*State{end}, lf.breaks...))
	}
	if end != nil {
		fr.returns = append(fr.returns, end)
	}
	final := e.merge(fr.returns)
	if final == nil {
		e.note("function never returns normally")
		return res
	}
	// bind result variables for the postconditions
	for i, k := range fr.results {
		if i < len(c.ResVars) {
			if obj := e.resVarObj(pk, c, c.ResVars[i]); obj != nil {
				var v Value
				if o, ok := k.(types.Object); ok {
					v = e.lookupVarIn(final, o)
				} else {
					v = final.vars[k]
				}
				v.Typ = fr.restyps[i]
				final.vars[obj] = v
			}
		}
	}
	e.hints(final, c.Hints)
	for i, en := range c.Ensures {
		e.spec++
		v := e.ev(en.Expr, final)
		e.spec--
		e.obligeNamed(final, fmt.Sprintf("post#%d", i), "post", v.T, decl.Pos(), fmt.Sprintf("postcondition %q", en.Text), en.Prop)
	}
	if ft := c.Opts["freshresult"]; ft != "" && len(fr.results) > 0 {
		e.freshResult(final, fr, ft, decl.Pos())
	}
	// frame: with an explicit modifies clause, every other heap must be unchanged on pre-existing references
	if c.ModSet {
		allowed := map[string]bool{}
		all := false
		for _, h := range c.Modifies {
			if h == "all" {
				all = true
			}
			allowed[h] = true
		}
		if !all {
			var names []string
			for h := range final.heaps {
				names = append(names, h)
			}
			sort.Strings(names)
			for _, h := range names {
				if strings.HasPrefix(h, "!epoch:") {
					if !allowed[strings.TrimPrefix(h, "!epoch:")] {
						e.obligeNamed(final, "frame:"+strings.TrimPrefix(h, "!epoch:"), "frame", "false", decl.Pos(), "heap havocked but not in modifies", "")
					}
					continue
				}
				if allowed[h] {
					continue
				}
				srt := e.heapSort(h)
				h0 := e.heapGet(e.entry, h, srt)
				if final.heaps[h] == h0 {
					continue
				}
				goal := fmt.Sprintf("(forall ((r!f %s)) (=> %s (= (select %s r!f) (select %s r!f))))", e.isort(), e.le("r!f", e.entry.top), final.heaps[h], h0)
				e.obligeNamed(final, "frame:"+h, "frame", goal, decl.Pos(), "heap "+h+" unchanged on pre-existing references (not in modifies)", "")
			}
			if final.epoch != e.entry.epoch {
				e.obligeNamed(final, "frame:all", "frame", "false", decl.Pos(), "whole heap havocked but modifies is not 'all'", "")
			}
		}
	}
	e.canary(final, "exit", decl.Pos())
	return res
}

// ---------------- query construction ----------------

func (e *Engine) buildQuery(o *Oblig, timeoutMs int) string {
	var b strings.Builder
	b.WriteString(e.preamble())
	if e.useStreq && !e.bv {
		b.WriteString(streqDef)
	}
	for _, d := range e.sortDecls {
		b.WriteString(d)
		b.WriteByte('\n')
	}
	for _, d := range e.decls {
		b.WriteString(d)
		b.WriteByte('\n')
	}
	for _, a := range e.specAxioms {
		b.WriteString("(assert " + a + ")\n")
	}
	for _, a := range e.axioms {
		if a == "true" {
			continue
		}
		b.WriteString("(assert " + a + ")\n")
	}
	for _, a := range e.assumes[:o.NAssumes] {
		b.WriteString("(assert " + a + ")\n")
	}
	b.WriteString("(assert " + o.PC + ")\n")
	b.WriteString("(assert " + not(o.Goal) + ")\n")
	b.WriteString("(check-sat)\n(get-model)\n")
	return b.String()
}

func (e *Engine) preamble() string {
	if e.bv {
		return preambleBV
	}
	return preambleInt
}

const preambleBV = `(set-option :produce-models true)
(set-logic ALL)
(declare-datatypes ((Str 0)) (((mk-str (s_arr (Array (_ BitVec 64) (_ BitVec 8))) (s_off (_ BitVec 64)) (s_len (_ BitVec 64))))))
(declare-datatypes ((Slc 0)) (((mk-slc (l_ref (_ BitVec 64)) (l_off (_ BitVec 64)) (l_len (_ BitVec 64)) (l_cap (_ BitVec 64))))))
(declare-datatypes ((Ifc 0)) (((mk-ifc (i_tid Int) (i_val Int)))))
(declare-sort Flt 0)
(declare-fun sid (Str) Int)
`

// ---------------- solving ----------------

type solveOpts struct {
	timeout time.Duration
	all     bool
	workdir string
	par     int
}

// solverPar: the number of solver processes run at once - all cores, or GOVC_PAR (used when several checks run side by
// side, e.g. by tools/selftest.sh, so that together they do not oversubscribe the machine and push queries into timeouts).
func solverPar() int {
	if v := os.Getenv("GOVC_PAR"); v != "" {
		var n int
		if _, err := fmt.Sscan(v, &n); err == nil && n > 0 {
			return n
		}
	}
	return runtime.NumCPU()
}

func solveUnit(r *UnitResult, opts solveOpts) { solveUnits([]*UnitResult{r}, opts) }

// solveUnits discharges the obligations of all units through one worker pool.
func solveUnits(rs []*UnitResult, opts solveOpts) {
	var wg sync.WaitGroup
	sem := make(chan struct{}, opts.par)
	type job struct {
		e *Engine
		o *Oblig
	}
	var jobs []job
	for _, r := range rs {
		for _, o := range r.Obligs {
			if o.Status == "" {
				jobs = append(jobs, job{r.engine, o})
			}
		}
	}
	// advisory overflow obligations last: they are the ones that tend to run into the timeout
	sort.SliceStable(jobs, func(i, j int) bool { return jobs[i].o.Kind != "ovf" && jobs[j].o.Kind == "ovf" })
	for _, j := range jobs {
		o, e := j.o, j.e
		wg.Add(1)
		sem <- struct{}{}
		go func() {
			defer wg.Done()
			defer func() { <-sem }()
			q := e.buildQuery(o, int(opts.timeout.Milliseconds()))
			o.Query = filepath.Join(opts.workdir, sanitize(o.Name)+".smt2")
			to := opts.timeout
			if o.Kind == "ovf" && to > 4*time.Second {
				to = 4 * time.Second // advisory only: do not spend the full budget on them
			}
			if o.Canary {
				to = 1500 * time.Millisecond // contradictions among ground facts show up fast; "sat" with quantifiers does not
				_ = os.MkdirAll(opts.workdir, 0o755)
				_ = os.WriteFile(o.Query, []byte(q), 0o644)
				res := runSolver("z3-new", o.Query, to)
				o.Status, o.Solver, o.Ms, o.Tried = res.Status, res.Solver, res.Ms, []solverResult{res}
				return
			}
			best, tried := solve(q, opts.workdir, o.Name, to, opts.all)
			o.Status, o.Solver, o.Ms, o.Tried = best.Status, best.Solver, best.Ms, tried
		}()
	}
	wg.Wait()
	// Second chance. An obligation that ended without an answer (timeout, unknown, solver error) on a loaded machine
	// is asked again once everything else is done: four times the budget, all solvers at once and z3 under two more
	// random seeds. Only a definite "unsat" discharges; a definite "sat" is kept as the counterexample.
	var again []job
	skip := readUnproved() // listed tool limits are not claimed: no second chance
	for _, f := range readFindings() {
		if f.Kind == "finding" {
			skip[f.Obligation] = "known finding"
		}
	}
	for _, j := range jobs {
		if _, listed := skip[j.o.Name]; listed {
			continue
		}
		if !j.o.Canary && j.o.Kind != "ovf" && j.o.Status != "unsat" && j.o.Status != "sat" {
			again = append(again, j)
		}
	}
	sem2 := make(chan struct{}, max(1, opts.par/4))
	for _, j := range again {
		o, e := j.o, j.e
		wg.Add(1)
		sem2 <- struct{}{}
		go func() {
			defer wg.Done()
			defer func() { <-sem2 }()
			to := 4 * opts.timeout
			q := e.buildQuery(o, int(to.Milliseconds()))
			best, tried := solveAgain(q, opts.workdir, o.Name, to)
			o.Tried = append(o.Tried, tried...)
			if best.Status == "unsat" || best.Status == "sat" {
				o.Status, o.Solver, o.Ms = best.Status, best.Solver+"(retry)", o.Ms+best.Ms
			}
		}()
	}
	wg.Wait()
}

func (r *UnitResult) summary() string {
	var b strings.Builder
	ok, bad, can := 0, 0, 0
	for _, o := range r.Obligs {
		switch {
		case o.Canary:
			can++
		case o.Status == "unsat":
			ok++
		default:
			bad++
		}
	}
	fmt.Fprintf(&b, "unit %s: %d obligations, %d discharged, %d open, %d canaries, gen %dms", r.Name, ok+bad, ok, bad, can, r.GenMs)
	if r.Err != "" {
		fmt.Fprintf(&b, "\n  ERROR: %s", r.Err)
	}
	return b.String()
}

// lookupTypeExpr resolves a type written as in the unit's package: T, *T, pkg.T or *pkg.T.
func (e *Engine) lookupTypeExpr(pk *Pkg, txt string) types.Type {
	ptr := strings.HasPrefix(txt, "*")
	txt = strings.TrimPrefix(txt, "*")
	scope := pk.Types.Scope()
	if q, name, ok := strings.Cut(txt, "."); ok {
		scope = nil
		for _, imp := range pk.Types.Imports() {
			if imp.Name() == q {
				scope = imp.Scope()
			}
		}
		txt = name
	}
	if scope == nil {
		return nil
	}
	obj := scope.Lookup(txt)
	if obj == nil {
		return nil
	}
	if ptr {
		return types.NewPointer(obj.Type())
	}
	return obj.Type()
}

// freshResult (`opt freshresult *pkg.T`): the result holds a *T; every field of the struct - exported or not - that is
// a pointer to a helper struct (not itself a node the contract speaks about) or a slice must point to memory allocated
// during the call: the copy shares no mutable helper object or backing array with anything that existed before.
func (e *Engine) freshResult(final *State, fr *frame, typ string, p token.Pos) {
	t := e.lookupTypeExpr(e.pk, typ)
	if t == nil {
		return
	}
	pt, ok := t.(*types.Pointer)
	if !ok {
		return
	}
	st, ok := pt.Elem().Underlying().(*types.Struct)
	if !ok {
		return
	}
	var rv Value
	if o, ok := fr.results[0].(types.Object); ok {
		rv = e.lookupVarIn(final, o)
	} else {
		rv = final.vars[fr.results[0]]
	}
	ptr := rv
	if _, isI := types.Unalias(fr.restyps[0]).Underlying().(*types.Interface); isI {
		ptr = e.unbox(rv.T, t)
	}
	skip := map[string]bool{}
	for _, n := range strings.Fields(e.c.Opts["freshskip"]) {
		skip[n] = true
	}
	for i := 0; i < st.NumFields(); i++ {
		f := st.Field(i)
		if skip[f.Name()] {
			continue
		}
		ft := types.Unalias(f.Type())
		switch u := ft.Underlying().(type) {
		case *types.Pointer:
			if _, isStruct := u.Elem().Underlying().(*types.Struct); !isStruct {
				continue
			}
			if strings.Contains(e.c.Opts["freshnodes"], " "+types.TypeString(u.Elem(), nil)+" ") {
				continue // a node child: its independence is the clone function's own postcondition
			}
			v := e.loadField(final, ptr.T, pt.Elem(), f.Name(), f.Type())
			e.obligeNamed(final, "fresh:"+f.Name(), "post", or(eq(v.T, e.izero()), e.lt(e.entry.top, v.T)), p,
				"field "+f.Name()+" of the result is nil or points to an object allocated during the call (no sharing with the original)", "")
		case *types.Slice:
			v := e.loadField(final, ptr.T, pt.Elem(), f.Name(), f.Type())
			e.obligeNamed(final, "fresh:"+f.Name(), "post", or(eq(sx("l_len", v.T), e.izero()), e.lt(e.entry.top, sx("l_ref", v.T))), p,
				"slice field "+f.Name()+" of the result is empty or has a backing array allocated during the call (no sharing with the original)", "")
		}
	}
}
