package main

import (
	"fmt"
	"go/token"
	"go/types"
	"math/big"
	"strings"
)

// wrapTo wraps the exact integer term x into the range of basic type b (int mode).
func (e *Engine) wrapTo(x string, b *types.Basic) string {
	w := intWidth(b)
	if isUnsigned(b) {
		return sx("wrapu", x, pow2[w])
	}
	return sx("wraps", x, pow2[w-1])
}

func isLit(t string) (*big.Int, bool) {
	s := t
	neg := false
	if strings.HasPrefix(s, "(- ") && strings.HasSuffix(s, ")") {
		s = s[3 : len(s)-1]
		neg = true
	}
	if s == "" {
		return nil, false
	}
	for _, c := range s {
		if c < '0' || c > '9' {
			return nil, false
		}
	}
	n := new(big.Int)
	n.SetString(s, 10)
	if neg {
		n.Neg(n)
	}
	return n, true
}

func isPow2(n *big.Int) (int, bool) {
	if n.Sign() <= 0 {
		return 0, false
	}
	k := n.BitLen() - 1
	if new(big.Int).Lsh(big.NewInt(1), uint(k)).Cmp(n) == 0 {
		return k, true
	}
	return 0, false
}

// arith evaluates a Go integer binary operation with result type t.
func (e *Engine) arith(st *State, op token.Token, a, b Value, t types.Type, p token.Pos) Value {
	t = defaultType(t)
	bt := basicOf(t)
	if bt == nil || bt.Info()&types.IsInteger == 0 {
		e.fail(p, "arithmetic on %s", t)
	}
	if e.bv {
		return e.arithBV(st, op, a, b, t, p)
	}
	w := intWidth(bt)
	lo, hi := intRange(bt)
	inRange := func(x string) string { return and(sx("<=", lo, x), sx("<=", x, hi)) }
	wrap := func(x string) Value {
		if w == 64 && e.spec > 0 {
			// inside a specification 64-bit arithmetic is mathematical (exact)
			return Value{x, t}
		}
		if w == 64 && e.c != nil && e.c.Opts["wrap64"] != "" {
			// `opt wrap64 on`: two's-complement wrap-around is part of the function's documented behaviour
			return Value{e.wrapTo(x, bt), t}
		}
		if w == 64 {
			// exact value; overflow becomes an obligation
			e.oblige(st, "ovf", inRange(x), p, "64-bit "+op.String()+" does not overflow")
			return Value{x, t}
		}
		return Value{e.wrapTo(x, bt), t}
	}
	switch op {
	case token.ADD:
		return wrap(sx("+", a.T, b.T))
	case token.SUB:
		return wrap(sx("-", a.T, b.T))
	case token.MUL:
		return wrap(sx("*", a.T, b.T))
	case token.QUO:
		e.oblige(st, "div", not(eq(b.T, "0")), p, "division by zero")
		if isUnsigned(bt) {
			return Value{sx("div", a.T, b.T), t}
		}
		// MinInt / -1 wraps
		q := sx("tdiv", a.T, b.T)
		if w == 64 {
			return Value{ite(and(eq(a.T, lo), eq(b.T, "(- 1)")), lo, q), t}
		}
		return Value{e.wrapTo(q, bt), t}
	case token.REM:
		e.oblige(st, "div", not(eq(b.T, "0")), p, "division by zero")
		if isUnsigned(bt) {
			return Value{sx("mod", a.T, b.T), t}
		}
		return Value{sx("tmod", a.T, b.T), t}
	case token.AND:
		if n, ok := isLit(b.T); ok {
			if k, ok2 := isPow2(new(big.Int).Add(n, big.NewInt(1))); ok2 {
				// x & (2^k-1) == x mod 2^k (also for negative x in two's complement)
				return Value{sx("mod", a.T, new(big.Int).Lsh(big.NewInt(1), uint(k)).String()), t}
			}
		}
		if n, ok := isLit(a.T); ok {
			if k, ok2 := isPow2(new(big.Int).Add(n, big.NewInt(1))); ok2 {
				return Value{sx("mod", b.T, new(big.Int).Lsh(big.NewInt(1), uint(k)).String()), t}
			}
		}
		// x & 2^k (single bit, non-negative x): ((x div 2^k) mod 2) * 2^k
		for _, pr := range [][2]Value{{a, b}, {b, a}} {
			if n, ok := isLit(pr[1].T); ok {
				if k, ok2 := isPow2(n); ok2 && isUnsigned(bt) {
					m := new(big.Int).Lsh(big.NewInt(1), uint(k)).String()
					return Value{sx("*", sx("mod", sx("div", pr[0].T, m), "2"), m), t}
				}
			}
		}
		v := Value{sx("bits_and", a.T, b.T), t}
		e.assume("true", e.rangeFact(v.T, t))
		// for non-negative operands the result is bounded by both
		e.assume("true", implies(and(sx(">=", a.T, "0"), sx(">=", b.T, "0")), and(sx("<=", "0", v.T), sx("<=", v.T, a.T), sx("<=", v.T, b.T))))
		return v
	case token.OR, token.XOR, token.AND_NOT:
		fn := map[token.Token]string{token.OR: "bits_or", token.XOR: "bits_xor", token.AND_NOT: "bits_andnot"}[op]
		e.declareFun("bits_andnot", []string{"Int", "Int"}, "Int")
		v := Value{sx(fn, a.T, b.T), t}
		e.assume("true", e.rangeFact(v.T, t))
		if op == token.OR {
			// (x * 2^k) | y == x*2^k + y when 0 <= y < 2^k and x >= 0: the operands have no bit in common
			for _, pr := range [][2]Value{{a, b}, {b, a}} {
				inner := pr[0].T
				wrapOK := true
				if strings.HasPrefix(inner, "(wrapu ") {
					// (x * 2^k) mod 2^w is still a multiple of 2^k when w >= k
					wp := splitArgs(inner[7 : len(inner)-1])
					wrapOK = false
					if len(wp) == 2 {
						if wn, ok := isLit(wp[1]); ok {
							if _, ok2 := isPow2(wn); ok2 {
								inner = wp[0]
								wrapOK = true
							}
						}
					}
				}
				if wrapOK && strings.HasPrefix(inner, "(* ") {
					parts := splitArgs(inner[3 : len(inner)-1])
					if len(parts) == 2 {
						if n, ok := isLit(parts[1]); ok {
							if _, ok2 := isPow2(n); ok2 {
								e.assume("true", implies(and(sx("<=", "0", parts[0]), sx("<=", "0", pr[1].T), sx("<", pr[1].T, parts[1])), eq(v.T, sx("+", pr[0].T, pr[1].T))))
							}
						}
					}
				}
			}
		}
		return v
	}
	e.fail(p, "operator %s", op)
	return Value{}
}

func (e *Engine) shift(st *State, op token.Token, a, b Value, t types.Type, p token.Pos) Value {
	t = defaultType(t)
	bt := basicOf(t)
	if e.bv {
		return e.shiftBV(st, op, a, b, t, p)
	}
	// negative shift count panics
	if cb := basicOf(defaultType(b.Typ)); cb != nil && !isUnsigned(cb) {
		if _, ok := isLit(b.T); !ok {
			e.oblige(st, "shift", sx(">=", b.T, "0"), p, "negative shift count")
		}
	}
	if n, ok := isLit(b.T); ok && n.Sign() >= 0 && n.BitLen() < 8 {
		k := uint(n.Int64())
		m := new(big.Int).Lsh(big.NewInt(1), k).String()
		if op == token.SHL {
			x := sx("*", a.T, m)
			if int(k) >= intWidth(bt) {
				return Value{"0", t}
			}
			return Value{e.wrapTo(x, bt), t}
		}
		return Value{sx("div", a.T, m), t} // floor division == arithmetic shift
	}
	fn := "bits_shl"
	if op == token.SHR {
		fn = "bits_shr"
	}
	v := Value{sx(fn, a.T, b.T), t}
	e.assume("true", e.rangeFact(v.T, t))
	if op == token.SHR {
		e.assume("true", implies(sx(">=", a.T, "0"), and(sx("<=", "0", v.T), sx("<=", v.T, a.T))))
	}
	return v
}

// convert implements the Go conversion T(v).
func (e *Engine) convert(st *State, v Value, to types.Type, p token.Pos) Value {
	from := defaultType(v.Typ)
	tu := types.Unalias(to).Underlying()
	fu := types.Unalias(from).Underlying()
	if _, ok := tu.(*types.Interface); ok {
		return e.coerce(v, to, st)
	}
	tb, _ := tu.(*types.Basic)
	fb, _ := fu.(*types.Basic)
	switch {
	case tb != nil && tb.Info()&types.IsInteger != 0 && fb != nil && fb.Info()&types.IsInteger != 0:
		if e.bv {
			return e.convBV(v, fb, tb, to)
		}
		if fb.Info()&types.IsUntyped != 0 {
			return Value{v.T, to}
		}
		if e.c.Strict && !fits(fb, tb) {
			lo, hi := intRange(tb)
			e.oblige(st, "conv", and(sx("<=", lo, v.T), sx("<=", v.T, hi)), p, "narrowing conversion is lossless")
		}
		if fits(fb, tb) {
			return Value{v.T, to}
		}
		return Value{e.wrapTo(v.T, tb), to}
	case tb != nil && tb.Info()&types.IsInteger != 0 && fb != nil && fb.Info()&types.IsFloat != 0:
		return e.opaque("f2i", to, v)
	case tb != nil && tb.Info()&types.IsFloat != 0:
		if fb != nil && fb.Info()&types.IsFloat != 0 && fb.Kind() == tb.Kind() {
			return Value{v.T, to}
		}
		return e.opaque("tofloat_"+mangle(tb.Name()), to, v)
	case tb != nil && tb.Info()&types.IsString != 0:
		if fb != nil && fb.Info()&types.IsString != 0 {
			return Value{v.T, to}
		}
		if sl, ok := fu.(*types.Slice); ok {
			if eb := basicOf(sl.Elem()); eb != nil && eb.Kind() == types.Uint8 {
				hn := elemHeapName(sl.Elem())
				srt := e.arrSort(e.arrSort(e.sortOf(sl.Elem())))
				h := e.heapGet(st, hn, srt)
				return Value{sx("mk-str", sx("select", h, sx("l_ref", v.T)), sx("l_off", v.T), sx("l_len", v.T)), to}
			}
			r := e.opaque("runes2str", to, v)
			return r
		}
		if fb != nil && fb.Info()&types.IsInteger != 0 {
			// string(rune): one byte for ASCII, else opaque of length 1..4
			r := e.opaque("rune2str", to, v)
			e.assume("true", and(sx("<=", "1", sx("s_len", r.T)), sx("<=", sx("s_len", r.T), "4")))
			e.assume("true", implies(and(sx("<=", "0", v.T), sx("<", v.T, "128")), and(eq(sx("s_len", r.T), "1"), eq(sx("select", sx("s_arr", r.T), sx("s_off", r.T)), v.T))))
			return r
		}
	}
	if sl, ok := tu.(*types.Slice); ok {
		if fb != nil && fb.Info()&types.IsString != 0 {
			if eb := basicOf(sl.Elem()); eb != nil && eb.Kind() == types.Uint8 {
				r := e.alloc(st)
				hn := elemHeapName(sl.Elem())
				srt := e.arrSort(e.arrSort(e.sortOf(sl.Elem())))
				h := e.heapGet(st, hn, srt)
				e.heapSet(st, hn, srt, sx("store", h, r, sx("s_arr", v.T)))
				return Value{sx("mk-slc", r, sx("s_off", v.T), sx("s_len", v.T), sx("s_len", v.T)), to}
			}
			// []rune(s)
			r := e.alloc(st)
			ln := e.fresh("nrunes", e.isort())
			e.assume("true", and(e.le(e.izero(), ln), e.le(ln, sx("s_len", v.T))))
			e.assume("true", implies(sx(">", sx("s_len", v.T), "0"), sx(">", ln, "0")))
			e.havocHeap(st, elemHeapName(sl.Elem()))
			e.abstract("[]rune(string) contents opaque", p)
			return Value{sx("mk-slc", r, e.izero(), ln, ln), to}
		}
	}
	// same underlying representation
	if e.sortOf(from) == e.sortOf(to) {
		return Value{v.T, to}
	}
	e.fail(p, "conversion %s -> %s", from, to)
	return Value{}
}

func fits(from, to *types.Basic) bool {
	fw, tw := intWidth(from), intWidth(to)
	fu, tu := isUnsigned(from), isUnsigned(to)
	switch {
	case fu == tu:
		return fw <= tw
	case fu && !tu:
		return fw < tw
	}
	return false
}

// ---------------- bit-vector mode ----------------

func (e *Engine) arithBV(st *State, op token.Token, a, b Value, t types.Type, p token.Pos) Value {
	bt := basicOf(t)
	u := isUnsigned(bt)
	w := intWidth(bt)
	zero := bvLit("0", w)
	switch op {
	case token.ADD:
		return Value{sx("bvadd", a.T, b.T), t}
	case token.SUB:
		return Value{sx("bvsub", a.T, b.T), t}
	case token.MUL:
		return Value{sx("bvmul", a.T, b.T), t}
	case token.QUO:
		e.divOblige(st, not(eq(b.T, zero)), p)
		if u {
			return Value{sx("bvudiv", a.T, b.T), t}
		}
		return Value{sx("bvsdiv", a.T, b.T), t}
	case token.REM:
		e.divOblige(st, not(eq(b.T, zero)), p)
		if u {
			return Value{sx("bvurem", a.T, b.T), t}
		}
		return Value{sx("bvsrem", a.T, b.T), t}
	case token.AND:
		return Value{sx("bvand", a.T, b.T), t}
	case token.OR:
		return Value{sx("bvor", a.T, b.T), t}
	case token.XOR:
		return Value{sx("bvxor", a.T, b.T), t}
	case token.AND_NOT:
		return Value{sx("bvand", a.T, sx("bvnot", b.T)), t}
	}
	e.fail(p, "operator %s", op)
	return Value{}
}

func (e *Engine) shiftBV(st *State, op token.Token, a, b Value, t types.Type, p token.Pos) Value {
	bt := basicOf(t)
	w := intWidth(bt)
	cb := basicOf(defaultType(b.Typ))
	cw := 64
	if cb != nil && cb.Info()&types.IsUntyped == 0 {
		cw = intWidth(cb)
	}
	cnt := b.T
	if cb != nil && cb.Info()&types.IsUntyped != 0 {
		// untyped constant count: literal was built at width of ... rebuild at w
		if n, ok := bvLitVal(b.T); ok {
			cnt = bvLit(n.String(), w)
			cw = w
		}
	}
	if cb != nil && !isUnsigned(cb) && cb.Info()&types.IsUntyped == 0 {
		e.oblige(st, "shift", sx("bvsge", b.T, bvLit("0", cw)), p, "negative shift count")
	}
	// bring the count to width w, saturating
	var c string
	switch {
	case cw == w:
		c = cnt
	case cw < w:
		c = fmt.Sprintf("((_ zero_extend %d) %s)", w-cw, cnt)
	default:
		// count wider than operand: saturate at w
		c = ite(sx("bvuge", cnt, bvLit(fmt.Sprint(w), cw)), bvLit(fmt.Sprint(w), w), fmt.Sprintf("((_ extract %d 0) %s)", w-1, cnt))
	}
	switch op {
	case token.SHL:
		return Value{sx("bvshl", a.T, c), t}
	default:
		if isUnsigned(bt) {
			return Value{sx("bvlshr", a.T, c), t}
		}
		return Value{sx("bvashr", a.T, c), t}
	}
}

func bvLitVal(t string) (*big.Int, bool) {
	if !strings.HasPrefix(t, "(_ bv") {
		return nil, false
	}
	f := strings.Fields(t[5 : len(t)-1])
	if len(f) != 2 {
		return nil, false
	}
	n := new(big.Int)
	if _, ok := n.SetString(f[0], 10); !ok {
		return nil, false
	}
	return n, true
}

func (e *Engine) convBV(v Value, fb, tb *types.Basic, to types.Type) Value {
	fw, tw := intWidth(fb), intWidth(tb)
	if fb.Info()&types.IsUntyped != 0 {
		if n, ok := bvLitVal(v.T); ok {
			// literal built at 64 bits: reinterpret
			if n.BitLen() == 64 && !isUnsigned(tb) {
				// negative
				n.Sub(n, new(big.Int).Lsh(big.NewInt(1), 64))
			}
			return Value{bvLit(n.String(), tw), to}
		}
		fw = 64
	}
	switch {
	case fw == tw:
		return Value{v.T, to}
	case fw > tw:
		return Value{fmt.Sprintf("((_ extract %d 0) %s)", tw-1, v.T), to}
	default:
		if isUnsigned(fb) {
			return Value{fmt.Sprintf("((_ zero_extend %d) %s)", tw-fw, v.T), to}
		}
		return Value{fmt.Sprintf("((_ sign_extend %d) %s)", tw-fw, v.T), to}
	}
}

// divOblige records the division-by-zero obligation, unless the unit declares that the native panic on a zero
// divisor is its intended behaviour (`opt divpanics ok`: the VM's division clauses, classified by convertPanic);
// the path continues under the assumption of a non-zero divisor.
func (e *Engine) divOblige(st *State, nonzero string, p token.Pos) {
	if e.c != nil && e.c.Opts["divpanics"] != "" {
		st.pc = and(st.pc, nonzero)
		return
	}
	e.oblige(st, "div", nonzero, p, "division by zero")
}
