package main

import (
	"fmt"
	"go/ast"
	"go/token"
	"go/types"
	"sort"
	"strings"
)

func (e *Engine) staticCallee(c *ast.CallExpr) *types.Func {
	fun := unparen(c.Fun)
	if ix, ok := fun.(*ast.IndexExpr); ok {
		fun = ix.X
	}
	switch f := fun.(type) {
	case *ast.Ident:
		if fn, ok := e.pk.Info.ObjectOf(f).(*types.Func); ok {
			return fn
		}
	case *ast.SelectorExpr:
		if sel := e.pk.Info.Selections[f]; sel != nil {
			if sel.Kind() == types.MethodVal {
				fn := sel.Obj().(*types.Func)
				if _, isIface := types.Unalias(sel.Recv()).Underlying().(*types.Interface); isIface {
					return nil
				}
				return fn
			}
			return nil
		}
		if fn, ok := e.pk.Info.ObjectOf(f.Sel).(*types.Func); ok {
			return fn
		}
	}
	return nil
}

// declOf finds the source declaration of fn in the loaded world.
func (e *Engine) declOf(fn *types.Func) (*ast.FuncDecl, *Pkg) {
	if fn.Pkg() == nil {
		return nil, nil
	}
	pk := e.w.Pkgs[fn.Pkg().Path()]
	if pk == nil {
		return nil, nil
	}
	name := fn.Name()
	if sig, ok := fn.Type().(*types.Signature); ok && sig.Recv() != nil {
		rt := sig.Recv().Type()
		ptr := false
		if p, ok := rt.(*types.Pointer); ok {
			rt = p.Elem()
			ptr = true
		}
		if n, ok := types.Unalias(rt).(*types.Named); ok {
			if ptr {
				name = "(*" + n.Obj().Name() + ")." + name
			} else {
				name = n.Obj().Name() + "." + name
			}
		}
	}
	return pk.FuncDecls[name], pk
}

func (e *Engine) unitNameOfFunc(fn *types.Func) string {
	name := fn.Name()
	if sig, ok := fn.Type().(*types.Signature); ok && sig.Recv() != nil {
		rt := sig.Recv().Type()
		ptr := false
		if p, ok := rt.(*types.Pointer); ok {
			rt = p.Elem()
			ptr = true
		}
		if n, ok := types.Unalias(rt).(*types.Named); ok {
			if ptr {
				name = "(*" + n.Obj().Name() + ")." + name
			} else {
				name = n.Obj().Name() + "." + name
			}
		}
	}
	return name
}

func (e *Engine) contractFor(fn *types.Func) *Contract {
	if fn.Pkg() == nil {
		return nil
	}
	pk := e.w.Pkgs[fn.Pkg().Path()]
	if pk == nil {
		return nil
	}
	return pk.ByName[e.unitNameOfFunc(fn)]
}

// inlinable: loop-free (outside closures), short, no defer/go/select/goto/recover.
func (e *Engine) inlinable(decl *ast.FuncDecl) bool {
	if decl.Body == nil {
		return false
	}
	ok := true
	n := 0
	ast.Inspect(decl.Body, func(x ast.Node) bool {
		switch x.(type) {
		case *ast.ForStmt, *ast.RangeStmt, *ast.DeferStmt, *ast.GoStmt, *ast.SelectStmt, *ast.FuncLit:
			ok = false
		case *ast.BranchStmt:
			if x.(*ast.BranchStmt).Tok == token.GOTO {
				ok = false
			}
		case ast.Stmt:
			n++
		}
		return ok
	})
	return ok && n <= 80
}

func (e *Engine) closureOf(id *ast.Ident) *ast.FuncLit {
	obj := e.pk.Info.ObjectOf(id)
	if obj == nil {
		return nil
	}
	return e.closureBind[obj]
}

// ---------------- calls ----------------

func (e *Engine) evCall(c *ast.CallExpr, st *State) []Value {
	if e.c != nil && len(e.c.LitAsserts) > 0 {
		// call-site assertions (`callassert`) are checked in the state right before the call
		e.litAsserts(c, Value{}, st)
	}
	// conversion?
	if tv, ok := e.pk.Info.Types[c.Fun]; ok && tv.IsType() {
		v := e.ev(c.Args[0], st)
		return []Value{e.convert(st, v, tv.Type, c.Pos())}
	}
	fun := unparen(c.Fun)
	if id, ok := fun.(*ast.Ident); ok {
		if b, isB := e.pk.Info.ObjectOf(id).(*types.Builtin); isB {
			return e.evBuiltin(b.Name(), c, st)
		}
	}
	// spec helpers
	if id, ok := fun.(*ast.Ident); ok {
		switch id.Name {
		case "old":
			if e.isSpecHelper(id) {
				if e.entry == nil {
					e.fail(c.Pos(), "old() without entry state")
				}
				e.spec++
				v := e.evOld(c.Args[0], st)
				e.spec--
				return []Value{v}
			}
		case "imp":
			if e.isSpecHelper(id) {
				a := e.ev(c.Args[0], st)
				b := e.ev(c.Args[1], st)
				return []Value{{implies(a.T, b.T), types.Typ[types.Bool]}}
			}
		case "forall", "exists":
			if e.isSpecHelper(id) {
				return []Value{e.evQuant(id.Name, c, st)}
			}
		case "wfailed", "werr", "wout", "wkey", "wonly":
			// ghost state of the abstract writer (DESIGN 2.4)
			if e.isSpecHelper(id) {
				w := e.ev(c.Args[0], st)
				key := e.writerKey(w)
				switch id.Name {
				case "wkey":
					return []Value{{key, types.Typ[types.Int]}}
				case "wonly":
					// frame: the ghost state of every other writer is what it was on entry
					hf := e.heapGet(st, "W_failed", "(Array Int Bool)")
					he := e.heapGet(st, "W_err", "(Array Int Ifc)")
					old := e.entry.clone()
					hf0 := e.heapGet(old, "W_failed", "(Array Int Bool)")
					he0 := e.heapGet(old, "W_err", "(Array Int Ifc)")
					if hf == hf0 && he == he0 {
						return []Value{{"true", types.Typ[types.Bool]}}
					}
					e.nfresh++
					k := fmt.Sprintf("k!w%d", e.nfresh)
					return []Value{{fmt.Sprintf("(forall ((%s Int)) (! (=> (not (= %s %s)) (and (= (select %s %s) (select %s %s)) (= (select %s %s) (select %s %s)))) :pattern ((select %s %s)) :pattern ((select %s %s))))",
						k, k, key, hf, k, hf0, k, he, k, he0, k, hf, k, he, k), types.Typ[types.Bool]}}
				}
				if id.Name == "wfailed" && e.infallibleWriter(w) {
					return []Value{{"false", types.Typ[types.Bool]}}
				}
				switch id.Name {
				case "wfailed":
					h := e.heapGet(st, "W_failed", "(Array Int Bool)")
					return []Value{{sx("select", h, key), types.Typ[types.Bool]}}
				case "werr":
					h := e.heapGet(st, "W_err", "(Array Int Ifc)")
					return []Value{{sx("select", h, key), e.typeOf(c)}}
				default:
					e.declareWriterTheory()
					h := e.heapGet(st, "W_out", "(Array Int BSeq)")
					return []Value{{sx("select", h, key), e.typeOf(c)}}
				}
			}
		case "fsplit":
			// fsplit(lo, mid, hi): instantiation seed for the fold split axioms (used by the `split` directive)
			if e.isSpecHelper(id) && len(c.Args) == 3 {
				e.declareWriterTheory()
				a := e.ev(c.Args[0], st)
				b := e.ev(c.Args[1], st)
				d := e.ev(c.Args[2], st)
				return []Value{{sx("fsplit", a.T, b.T, d.T), types.Typ[types.Bool]}}
			}
		case "bsplit":
			// bsplit(x, lo, mid, hi): the instance "x[lo:hi] is x[lo:mid] followed by x[mid:hi]" of the merge law, for a
			// string or byte slice x (used in `hint` clauses; valid for lo <= mid <= hi)
			if e.isSpecHelper(id) && len(c.Args) == 4 {
				e.declareWriterTheory()
				x := e.ev(c.Args[0], st)
				lo := e.ev(c.Args[1], st)
				mid := e.ev(c.Args[2], st)
				hi := e.ev(c.Args[3], st)
				arr, off, _ := e.bytesOf(st, x)
				whole := sx("bseq", arr, e.add(off, lo.T), e.add(off, hi.T))
				parts := sx("cat", sx("bseq", arr, e.add(off, lo.T), e.add(off, mid.T)), sx("bseq", arr, e.add(off, mid.T), e.add(off, hi.T)))
				return []Value{{implies(and(e.le(lo.T, mid.T), e.le(mid.T, hi.T)), eq(whole, parts)), types.Typ[types.Bool]}}
			}
		case "cat", "sub", "lit", "eps":
			// byte sequences (abstract sort BSeq): concatenation, the bytes s[lo:hi], the bytes of a string, the empty sequence
			if e.isSpecHelper(id) {
				e.declareWriterTheory()
				rt := e.typeOf(c)
				switch id.Name {
				case "cat":
					a := e.ev(c.Args[0], st)
					b := e.ev(c.Args[1], st)
					return []Value{{sx("cat", a.T, b.T), rt}}
				case "sub":
					s := e.ev(c.Args[0], st)
					lo := e.ev(c.Args[1], st)
					hi := e.ev(c.Args[2], st)
					arr, off, _ := e.bytesOf(st, s)
					return []Value{{sx("bseq", arr, e.add(off, lo.T), e.add(off, hi.T)), rt}}
				case "lit":
					s := e.ev(c.Args[0], st)
					arr, off, ln := e.bytesOf(st, s)
					return []Value{{sx("bseq", arr, off, e.add(off, ln)), rt}}
				default:
					return []Value{{"eps", rt}}
				}
			}
		case "lastcb":
			// lastcb(): result of the latest callback call of the iterator run in progress (see iteratorCall)
			if e.isSpecHelper(id) {
				if v, ok := st.vars[iterCbKey]; ok {
					return []Value{{v.T, e.typeOf(c)}}
				}
				return []Value{e.zero(e.typeOf(c))}
			}
		case "called":
			// called("f"): a tracked call to f happened on this path
			if e.isSpecHelper(id) {
				tv := e.pk.Info.Types[c.Args[0]]
				if tv.Value == nil {
					e.fail(c.Pos(), "called needs a constant function name")
				}
				name := strings.Trim(tv.Value.ExactString(), "\"")
				if v, ok := st.vars[e.trackFlag(name)]; ok {
					return []Value{v}
				}
				if e.calleePost > 0 {
					// inside a callee's postcondition the callee's own ghost calls are unknown to the caller
					return []Value{e.calleeGhost("called:"+name, types.Typ[types.Bool])}
				}
				return []Value{{"false", types.Typ[types.Bool]}}
			}
		case "lastInt", "lastResStr", "lastResValue", "lastArgInt", "lastArgStr", "lastArgBool", "lastArgBytes", "lastArgLen", "lastArgType":
			// lastInt("f"): first result of the latest call to f; lastArgInt("f", i): its i-th argument (`opt track`)
			if e.isSpecHelper(id) {
				tv := e.pk.Info.Types[c.Args[0]]
				if tv.Value == nil {
					e.fail(c.Pos(), "%s needs a constant function name", id.Name)
				}
				name := strings.Trim(tv.Value.ExactString(), "\"")
				key := e.trackKey(name, 0)
				if id.Name != "lastInt" && id.Name != "lastResStr" && id.Name != "lastResValue" {
					iv := e.pk.Info.Types[c.Args[1]]
					n := 0
					if iv.Value != nil {
						fmt.Sscan(iv.Value.ExactString(), &n)
					}
					key = e.trackKey(name+":arg", n)
				}
				v, ok := st.vars[key]
				if !ok && e.calleePost > 0 {
					return []Value{e.calleeGhost(key.name, e.typeOf(c))}
				}
				if !ok && e.c != nil && strings.Contains(" "+e.c.Opts["track"]+" ", " "+name+" ") {
					// the function is tracked but has not been called on this path: the value is unspecified (an
					// arbitrary one), so a specification has to guard it with called(...)
					return []Value{e.havocValue("nocall", e.typeOf(c))}
				}
				if !ok {
					e.fail(c.Pos(), "%s(%q): no tracked call on this path (is the function listed in `opt track`?)", id.Name, name)
				}
				if id.Name == "lastArgLen" {
					// the length the slice or string argument had when the call was made
					if isString(v.Typ) {
						return []Value{{sx("s_len", v.T), e.typeOf(c)}}
					}
					return []Value{{sx("l_len", v.T), e.typeOf(c)}}
				}
				return []Value{e.convert(st, v, e.typeOf(c), c.Pos())}
			}
		case "lastErr":
			// lastErr("f"): the error-typed result of the latest call to f (functions listed in `opt track`)
			if e.isSpecHelper(id) {
				tv := e.pk.Info.Types[c.Args[0]]
				if tv.Value == nil {
					e.fail(c.Pos(), "lastErr needs a constant function name")
				}
				name := strings.Trim(tv.Value.ExactString(), "\"")
				for i := 0; i < 4; i++ {
					if v, ok := st.vars[e.trackKey(name, i)]; ok {
						if _, isI := types.Unalias(v.Typ).Underlying().(*types.Interface); isI {
							return []Value{{v.T, e.typeOf(c)}}
						}
					}
				}
				// no call yet on this path: nil
				return []Value{e.zero(e.typeOf(c))}
			}
		case "entry":
			// entry(x): the value of x when the innermost loop whose invariant is being evaluated was entered
			if e.isSpecHelper(id) {
				if len(e.loopEntry) == 0 {
					e.fail(c.Pos(), "entry() outside a loop invariant")
				}
				e.spec++
				v := e.ev(c.Args[0], e.loopEntry[len(e.loopEntry)-1].clone())
				e.spec--
				return []Value{v}
			}
		case "sliceEq":
			// same backing array, offset, length and capacity
			if e.isSpecHelper(id) {
				a := e.ev(c.Args[0], st)
				b := e.ev(c.Args[1], st)
				return []Value{{eq(a.T, b.T), types.Typ[types.Bool]}}
			}
		case "ncalls", "lastret":
			if e.isSpecHelper(id) {
				aid, ok := unparen(c.Args[0]).(*ast.Ident)
				if !ok {
					e.fail(c.Pos(), "%s needs a function-typed variable", id.Name)
				}
				obj := e.pk.Info.ObjectOf(aid)
				k := e.ghostKey(id.Name, obj)
				v, ok := st.vars[k]
				if !ok {
					e.fail(c.Pos(), "%s(%s): not a function-typed parameter of the unit", id.Name, aid.Name)
				}
				return []Value{v}
			}
		case "rangeWidth":
			// rangeWidth(): inside a range-over-string body, the byte width of the current rune
			if e.isSpecHelper(id) {
				if v, ok := st.vars[rangeWidthKey]; ok {
					return []Value{v}
				}
				e.fail(c.Pos(), "rangeWidth(): not inside a range-over-string body")
			}
		case "visited":
			// visited(x): the function named by `opt ghostvisit` has been called on x in this activation
			if e.isSpecHelper(id) {
				v := e.ev(c.Args[0], st)
				v = e.coerce(v, e.pk.Info.TypeOf(c.Args[0]), st)
				if _, isI := types.Unalias(v.Typ).Underlying().(*types.Interface); !isI {
					v = Value{e.box(v), types.NewInterfaceType(nil, nil)}
				}
				return []Value{{sx("select", e.heapGet(st, ghVisited, ghVisitedSort), v.T), types.Typ[types.Bool]}}
			}
		case "nvisits":
			// nvisits(): number of calls of the `opt ghostvisit` function with a non-nil argument in this activation
			if e.isSpecHelper(id) {
				return []Value{{e.heapGet(st, ghCount, e.isort()), types.Typ[types.Int]}}
			}
		case "rangeKeyStr", "rangeKeyInt":
			// rangeKeyStr(n, j): the j-th key visited by the n-th range loop of the function, a range over a map that the
			// loop does not modify
			if e.isSpecHelper(id) {
				tv := e.pk.Info.Types[c.Args[0]]
				n := 0
				if tv.Value != nil {
					fmt.Sscan(tv.Value.ExactString(), &n)
				}
				fn, ok := e.mapKeyFn[n]
				if !ok {
					e.fail(c.Pos(), "%s(%d, ...): loop %d is not a range over an unmodified map (or has not been reached)", id.Name, n, n)
				}
				j := e.ev(c.Args[1], st)
				return []Value{{sx(fn, j.T), e.typeOf(c)}}
			}
		case "freshPtr":
			// freshPtr(p): p is nil or points to an object allocated since the function (for a callee's contract: the call) began
			if e.isSpecHelper(id) && e.entry != nil {
				v := e.ev(c.Args[0], st)
				return []Value{{or(eq(v.T, e.izero()), e.lt(e.entry.top, v.T)), types.Typ[types.Bool]}}
			}
		case "freshSlice":
			// freshSlice(s): the backing array of s was allocated by the function under verification (or s is nil)
			if e.isSpecHelper(id) && e.entry != nil {
				v := e.ev(c.Args[0], st)
				return []Value{{or(eq(sx("l_ref", v.T), e.izero()), e.lt(e.entry.top, sx("l_ref", v.T))), types.Typ[types.Bool]}}
			}
		case "sameDynType":
			// sameDynType(a, b): the interface values a and b have the same dynamic type
			if e.isSpecHelper(id) {
				a := e.ev(c.Args[0], st)
				b := e.ev(c.Args[1], st)
				return []Value{{eq(sx("i_tid", a.T), sx("i_tid", b.T)), types.Typ[types.Bool]}}
			}
		case "typedNil":
			// typedNil(x): the interface value x holds a nil pointer (a non-nil interface whose payload is nil)
			if e.isSpecHelper(id) {
				v := e.ev(c.Args[0], st)
				e.declareFun("tnil", []string{"Ifc"}, "Bool")
				return []Value{{sx("tnil", v.T), types.Typ[types.Bool]}}
			}
		case "rangeIndex":
			if e.isSpecHelper(id) {
				tv := e.pk.Info.Types[c.Args[0]]
				n := 0
				if tv.Value != nil {
					fmt.Sscan(tv.Value.ExactString(), &n)
				}
				for k, v := range st.vars {
					if sk, ok := k.(*synth); ok && sk.name == fmt.Sprintf("rangeidx%d", n) {
						return []Value{v}
					}
				}
				e.fail(c.Pos(), "rangeIndex(%d): loop not active", n)
			}
		}
	}
	if ix, ok := fun.(*ast.IndexExpr); ok {
		if id, ok := ix.X.(*ast.Ident); ok && id.Name == "old" && e.isSpecHelper(id) {
			e.spec++
			v := e.evOld(c.Args[0], st)
			e.spec--
			return []Value{v}
		}
	}
	sig, _ := types.Unalias(e.typeOf(c.Fun)).Underlying().(*types.Signature)
	if sig == nil {
		e.fail(c.Pos(), "call of non-function")
	}
	fn := e.staticCallee(c)
	// receiver
	var recv *Value
	if se, ok := fun.(*ast.SelectorExpr); ok {
		if sel := e.pk.Info.Selections[se]; sel != nil && sel.Kind() == types.MethodVal {
			rv := e.ev(se.X, st)
			// adjust for pointer/value receiver through embedded path
			rv = e.methodRecv(st, rv, sel, se.Pos())
			recv = &rv
		}
	}
	wb := e.recvWB
	e.recvWB = nil
	args := e.evArgs(c, sig, st)
	if fn != nil {
		res := e.callStatic(c, fn, sig, recv, args, st)
		e.writeBackRecv(st, wb)
		return res
	}
	// interface method
	if se, ok := fun.(*ast.SelectorExpr); ok && recv != nil {
		if e.c != nil && e.spec == 0 && e.bound == 0 {
			// a method call on a nil interface value panics. The obligation is generated only where a contract claims it
			// (`claim[Cxx] nilifc[EXPR]`): interface values are non-nil by construction in most of the code under contract
			// and the obligation would need that stated everywhere.
			nm := "nilifc[" + strings.ReplaceAll(exprStr(se.X), " ", "") + "]"
			for _, cl := range e.c.Claims {
				if strings.Contains(nm, cl.Text) {
					if _, isI := types.Unalias(recv.Typ).Underlying().(*types.Interface); isI {
						e.oblige(st, "nilifc", not(e.isNil(*recv)), se.Pos(), "nilifc"+strings.ReplaceAll(exprStr(se.X), " ", "")+": method call on a nil interface value")
					}
					break
				}
			}
		}
		if strings.HasPrefix(recv.T, "(mk-ifc ") {
			// the receiver was boxed from a value of a known concrete type: the call is resolved statically
			var id int
			if _, err := fmt.Sscanf(recv.T, "(mk-ifc %d ", &id); err == nil && id > 0 {
				if ct := e.tidTypes[id]; ct != nil {
					if msel := types.NewMethodSet(ct).Lookup(e.pk.Types, se.Sel.Name); msel != nil {
						if mfn, ok := msel.Obj().(*types.Func); ok {
							rv := e.unbox(recv.T, ct)
							rv = e.methodRecv(st, rv, msel, se.Pos())
							wb2 := e.recvWB
							e.recvWB = nil
							res := e.callStatic(c, mfn, mfn.Type().(*types.Signature), &rv, args, st)
							e.writeBackRecv(st, wb2)
							return res
						}
					}
				}
			}
		}
		if res, ok := e.ifaceStub(c, se, *recv, args, sig, st); ok {
			return res
		}
		if e.spec == 0 && e.c != nil {
			if ls := e.c.Iters[se.Sel.Name]; ls != nil && len(c.Args) == 1 {
				if id, ok := unparen(c.Args[0]).(*ast.Ident); ok {
					if lit := e.closureOf(id); lit != nil {
						return e.iteratorCall(c, se.Sel.Name, ls, lit, sig, st)
					}
				}
			}
		}
		if e.spec > 0 || e.pureMethod(se.Sel.Name) {
			e.stubsUsed["interface method "+se.Sel.Name+": deterministic function of receiver and arguments with no effect on tracked memory (declared by `opt puremethods`, or used inside a specification)"] = true
			return e.pureUF("ifc."+se.Sel.Name, sig, recv, args, st)
		}
		e.abstract("interface method call "+exprStr(c.Fun)+" (results and heap havocked)", c.Pos())
		e.havocAll(st)
		return e.havocResults(st, sig, "ifc_"+se.Sel.Name)
	}
	// function value
	if id, ok := fun.(*ast.Ident); ok {
		if lit := e.closureOf(id); lit != nil {
			return e.inlineClosure(c, lit, args, st)
		}
	}
	if lit, ok := fun.(*ast.FuncLit); ok {
		return e.inlineClosure(c, lit, args, st)
	}
	e.ev(c.Fun, st)
	if e.spec > 0 {
		e.fail(c.Pos(), "call through function value in specification")
	}
	e.abstract("call through function value "+exprStr(c.Fun)+" (results and heap havocked)", c.Pos())
	if id, ok := fun.(*ast.Ident); ok && e.c != nil {
		// `opt stopatfirsterror f`: the callback f is never called again once it has returned a non-nil error
		for _, n := range strings.Fields(e.c.Opts["stopatfirsterror"]) {
			if n == id.Name {
				if lr, ok := st.vars[e.ghostKey("lastret", e.pk.Info.ObjectOf(id))]; ok {
					e.obligeNamed(st, fmt.Sprintf("pre:no-call-after-error#%d", e.callSite("cb:"+n)), "pre", e.isNil(lr), c.Pos(), "the callback "+n+" is not called after it returned an error", "")
				}
			}
		}
	}
	e.havocAll(st)
	res := e.havocResults(st, sig, "fv")
	if id, ok := fun.(*ast.Ident); ok {
		obj := e.pk.Info.ObjectOf(id)
		nk := e.ghostKey("ncalls", obj)
		if n, ok := st.vars[nk]; ok {
			st.vars[nk] = Value{e.add(n.T, e.ilit("1")), n.Typ}
			if len(res) > 0 {
				st.vars[e.ghostKey("lastret", obj)] = res[0]
			}
		}
	}
	return res
}

func (e *Engine) pureMethod(name string) bool {
	if e.c == nil {
		return false
	}
	for _, m := range strings.Fields(e.c.Opts["puremethods"]) {
		if m == name {
			return true
		}
	}
	return false
}

func (e *Engine) ghostKey(kind string, obj types.Object) *synth {
	k := kind + ":" + keyName(obj)
	if s, ok := e.ghosts[k]; ok {
		return s
	}
	s := &synth{k}
	e.ghosts[k] = s
	return s
}

func (e *Engine) isSpecHelper(id *ast.Ident) bool {
	obj := e.pk.Info.ObjectOf(id)
	if obj == nil || obj.Pkg() == nil {
		return false
	}
	f := e.pk.Fset.Position(obj.Pos()).Filename
	return strings.HasSuffix(f, "_verif.go")
}

func (e *Engine) evOld(x ast.Expr, cur ...*State) Value {
	// evaluate in the entry state; locals assigned since then are invisible, parameters have entry values;
	// variables bound by an enclosing quantifier stay visible
	s := e.entry.clone()
	// the ghost records of tracked calls (lastArgStr, lastErr, called...) are not program state: inside old() they keep
	// their current values, so that old(f(x, lastArgStr("g", 0))) reads memory as it was at entry
	for _, c := range cur {
		if c == nil {
			continue
		}
		for k, v := range c.vars {
			if sk, ok := k.(*synth); ok && strings.HasPrefix(sk.name, "callres:") {
				s.vars[k] = v
			}
		}
	}
	for _, b := range e.boundVars {
		s.vars[b.obj] = b.val
	}
	return e.ev(x, s)
}

func (e *Engine) evQuant(kind string, c *ast.CallExpr, st *State) Value {
	// forall(lo, hi, func(k int) bool { return P })
	lo := e.ev(c.Args[0], st)
	hi := e.ev(c.Args[1], st)
	lit, ok := unparen(c.Args[2]).(*ast.FuncLit)
	if !ok {
		e.fail(c.Pos(), "%s needs a function literal", kind)
	}
	ret, ok := lit.Body.List[0].(*ast.ReturnStmt)
	if !ok || len(lit.Body.List) != 1 {
		e.fail(c.Pos(), "%s body must be a single return", kind)
	}
	param := lit.Type.Params.List[0].Names[0]
	obj := e.pk.Info.Defs[param]
	e.nfresh++
	bv := fmt.Sprintf("q!%s!%d", param.Name, e.nfresh)
	s2 := st.clone()
	s2.vars[obj] = Value{bv, obj.Type()}
	e.boundVars = append(e.boundVars, boundVar{obj, Value{bv, obj.Type()}})
	e.spec++
	e.bound++
	body := e.ev(ret.Results[0], s2)
	e.bound--
	e.spec--
	e.boundVars = e.boundVars[:len(e.boundVars)-1]
	rng := and(e.le(lo.T, bv), e.lt(bv, hi.T))
	if e.c != nil && e.c.Opts["absindex"] != "" && !e.bv {
		// `opt absindex yes`: when the body reads one slice at the bound position - (select A (+ OFF k)) - the
		// quantifier is restated over the absolute position J = OFF + k. The instances the solver needs are then
		// found by matching (select A J) against any read of the array, whatever arithmetic its index carries
		// (element shifts by copy or append); with the relative form the index has to match (+ OFF k) syntactically.
		needle := " " + bv + ")"
		offs := map[string]bool{}
		for i := 0; ; {
			j := strings.Index(body.T[i:], needle)
			if j < 0 {
				break
			}
			end := i + j
			// walk back to the "(+ " that opens this application
			depth, k := 0, end-1
			for ; k >= 0; k-- {
				if body.T[k] == ')' {
					depth++
				} else if body.T[k] == '(' {
					if depth == 0 {
						break
					}
					depth--
				}
			}
			if k >= 0 && strings.HasPrefix(body.T[k:], "(+ ") {
				offs[body.T[k+3:end]] = true
			}
			i = end + len(needle)
		}
		if len(offs) == 1 {
			var off string
			for o := range offs {
				off = o
			}
			abs := bv + "!abs"
			rel := sx("-", abs, off)
			bt := strings.ReplaceAll(body.T, "(+ "+off+" "+bv+")", abs)
			bt = strings.ReplaceAll(bt, bv, "\x00")
			bt = strings.ReplaceAll(bt, "\x00!abs", abs)
			bt = strings.ReplaceAll(bt, "\x00", rel)
			r2 := and(e.le(lo.T, rel), e.lt(rel, hi.T))
			if kind == "forall" {
				return Value{fmt.Sprintf("(forall ((%s %s)) %s)", abs, e.isort(), implies(r2, bt)), types.Typ[types.Bool]}
			}
			return Value{fmt.Sprintf("(exists ((%s %s)) %s)", abs, e.isort(), and(r2, bt)), types.Typ[types.Bool]}
		}
	}
	if kind == "forall" {
		return Value{fmt.Sprintf("(forall ((%s %s)) %s)", bv, e.isort(), implies(rng, body.T)), types.Typ[types.Bool]}
	}
	return Value{fmt.Sprintf("(exists ((%s %s)) %s)", bv, e.isort(), and(rng, body.T)), types.Typ[types.Bool]}
}

// recvWriteBack: see methodRecv (copy-in/copy-out of a value-embedded receiver).
type recvWriteBack struct {
	outer  string
	outerT types.Type
	field  *types.Var
	inner  *types.Struct
	ref    string
}

// writeBackRecv copies the fields of the temporary receiver object back into the embedded field.
func (e *Engine) writeBackRecv(st *State, wb *recvWriteBack) {
	if wb == nil || st == nil {
		return
	}
	var fs []string
	for i := 0; i < wb.inner.NumFields(); i++ {
		g := wb.inner.Field(i)
		fs = append(fs, e.loadField(st, wb.ref, wb.field.Type(), g.Name(), g.Type()).T)
	}
	sn := e.sortOf(wb.field.Type())
	val := "mk-" + sn
	if len(fs) > 0 {
		val = sx("mk-"+sn, fs...)
	}
	hn := fieldHeapName(wb.outerT, wb.field.Name())
	srt := e.arrSort(sn)
	h := e.heapGet(st, hn, srt)
	e.heapSet(st, hn, srt, sx("store", h, wb.outer, val))
}

func (e *Engine) methodRecv(st *State, rv Value, sel *types.Selection, p token.Pos) Value {
	path := sel.Index()
	e.recvWB = nil
	if len(path) == 2 {
		// a method promoted from a struct embedded BY VALUE in the struct rv points to, with a pointer receiver: the
		// receiver is the address of the embedded field. The verifier has no interior pointers; the call is executed
		// on a fresh object holding a copy of the embedded value (copy-in) and the object's fields are copied back
		// into the embedded field when the call returns (copy-out, evCall). Exact as long as the method does not
		// keep the receiver - true of field getters and setters, which is what such promoted methods are.
		if pt, ok := types.Unalias(rv.Typ).Underlying().(*types.Pointer); ok {
			if su, ok := pt.Elem().Underlying().(*types.Struct); ok {
				f := su.Field(path[0])
				inner, isStruct := types.Unalias(f.Type()).Underlying().(*types.Struct)
				fn := sel.Obj().(*types.Func)
				sig := fn.Type().(*types.Signature)
				if isStruct && sig.Recv() != nil {
					if _, wantPtr := sig.Recv().Type().(*types.Pointer); wantPtr {
						e.oblige(st, "nil", not(eq(rv.T, e.izero())), p, "nil dereference")
						val := e.loadField(st, rv.T, pt.Elem(), f.Name(), f.Type())
						r := e.alloc(st)
						for i := 0; i < inner.NumFields(); i++ {
							g := inner.Field(i)
							hn := fieldHeapName(f.Type(), g.Name())
							srt := e.arrSort(e.sortOf(g.Type()))
							h := e.heapGet(st, hn, srt)
							e.heapSet(st, hn, srt, sx("store", h, r, e.proj(e.sortOf(f.Type()), g.Name(), i, val.T)))
						}
						e.recvWB = &recvWriteBack{outer: rv.T, outerT: pt.Elem(), field: f, inner: inner, ref: r}
						e.stubsUsed["pointer-receiver method promoted from a value-embedded struct: executed on a copy of the embedded value, copied back on return (exact for methods that do not keep their receiver)"] = true
						return Value{r, types.NewPointer(f.Type())}
					}
				}
			}
		}
	}
	if len(path) > 1 {
		rv = e.fieldPath(st, rv, path[:len(path)-1], p)
	}
	fn := sel.Obj().(*types.Func)
	sig := fn.Type().(*types.Signature)
	if sig.Recv() == nil {
		return rv
	}
	_, wantPtr := sig.Recv().Type().(*types.Pointer)
	_, havePtr := types.Unalias(rv.Typ).Underlying().(*types.Pointer)
	if wantPtr && !havePtr {
		// address of an addressable value: opaque
		e.abstract("implicit address-of for method receiver", p)
		v := e.havocValue("recvaddr", sig.Recv().Type())
		e.assume(st.pc, e.lt(e.izero(), v.T))
		return v
	}
	if !wantPtr && havePtr {
		if _, isIface := types.Unalias(sig.Recv().Type()).Underlying().(*types.Interface); isIface {
			return rv
		}
		e.oblige(st, "nil", not(eq(rv.T, e.izero())), p, "nil dereference (method receiver)")
		return e.loadPtr(st, rv.T, rv.Typ.Underlying().(*types.Pointer).Elem())
	}
	return rv
}

func (e *Engine) evArgs(c *ast.CallExpr, sig *types.Signature, st *State) []Value {
	var args []Value
	if len(c.Args) == 1 && sig.Params().Len() > 1 {
		if _, isTuple := e.pk.Info.TypeOf(c.Args[0]).(*types.Tuple); isTuple {
			return e.evMulti(c.Args[0], st)
		}
	}
	np := sig.Params().Len()
	for i, a := range c.Args {
		v := e.ev(a, st)
		var pt types.Type
		if sig.Variadic() && i >= np-1 {
			if c.Ellipsis.IsValid() {
				pt = sig.Params().At(np - 1).Type()
			} else {
				pt = sig.Params().At(np - 1).Type().(*types.Slice).Elem()
			}
		} else if i < np {
			pt = sig.Params().At(i).Type()
		}
		args = append(args, e.coerce(v, pt, st))
	}
	if sig.Variadic() && !c.Ellipsis.IsValid() {
		// pack the variadic tail into an opaque slice of the right length
		fixed := np - 1
		tail := args[fixed:]
		st2 := st
		slt := sig.Params().At(np - 1).Type().(*types.Slice)
		var sl Value
		if len(tail) == 0 {
			sl = e.zero(slt)
		} else {
			z := e.zero(slt.Elem())
			arr := fmt.Sprintf("((as const %s) %s)", e.arrSort(e.sortOf(slt.Elem())), z.T)
			for i, a := range tail {
				arr = sx("store", arr, e.ilit(fmt.Sprint(i)), a.T)
			}
			if e.spec == 0 {
				r := e.alloc(st2)
				hn := elemHeapName(slt.Elem())
				srt := e.arrSort(e.arrSort(e.sortOf(slt.Elem())))
				h := e.heapGet(st2, hn, srt)
				e.heapSet(st2, hn, srt, sx("store", h, r, arr))
				n := e.ilit(fmt.Sprint(len(tail)))
				sl = Value{sx("mk-slc", r, e.izero(), n, n), slt}
			} else {
				sl = e.zero(slt)
			}
		}
		args = append(args[:fixed:fixed], sl)
	}
	return args
}

func (e *Engine) havocResults(st *State, sig *types.Signature, hint string) []Value {
	var out []Value
	for i := 0; i < sig.Results().Len(); i++ {
		v := e.havocValue(hint+"_r", sig.Results().At(i).Type())
		e.refBound(st, v)
		out = append(out, v)
	}
	return out
}

// callStatic performs a call to a statically known function and, for functions named in `opt track`, records
// the results in ghost variables (read in contracts with lastErr("name")).
func (e *Engine) callStatic(c *ast.CallExpr, fn *types.Func, sig *types.Signature, recv *Value, args []Value, st *State) []Value {
	res := e.callStatic0(c, fn, sig, recv, args, st)
	if e.spec == 0 && e.c != nil {
		for _, n := range strings.Fields(e.c.Opts["track"]) {
			if n == fn.Name() {
				for i, r := range res {
					st.vars[e.trackKey(n, i)] = r
				}
				for i, a := range args {
					st.vars[e.trackKey(n+":arg", i)] = a
				}
				st.vars[e.trackFlag(n)] = Value{"true", types.Typ[types.Bool]}
			}
		}
		if gv := e.c.Opts["ghostvisit"]; gv != "" && gv == fn.Name() && len(args) > 0 && len(e.inlineStack) == 0 {
			e.ghostVisit(st, args[len(args)-1])
		}
	}
	return res
}

// calleeGhost: one unknown value per ghost name for the postconditions of one call (an existential witness).
func (e *Engine) calleeGhost(name string, t types.Type) Value {
	if v, ok := e.calleeGhosts[name]; ok {
		return v
	}
	v := e.havocValue("cghost", t)
	e.calleeGhosts[name] = v
	return v
}

func (e *Engine) trackFlag(name string) *synth {
	k := "callres:" + name + ":called"
	if s, ok := e.ghosts[k]; ok {
		return s
	}
	s := &synth{k}
	e.ghosts[k] = s
	return s
}

func (e *Engine) trackKey(name string, i int) *synth {
	k := fmt.Sprintf("callres:%s:%d", name, i)
	if s, ok := e.ghosts[k]; ok {
		return s
	}
	s := &synth{k}
	e.ghosts[k] = s
	return s
}

func (e *Engine) callStatic0(c *ast.CallExpr, fn *types.Func, sig *types.Signature, recv *Value, args []Value, st *State) []Value {
	full := fn.FullName()
	if fd, fpk := e.foldFor(fn); fd != nil && len(args) >= 3 {
		return []Value{e.foldCall(fd, fpk, fn, args, sig.Results().At(0).Type())}
	}
	if res, ok := e.stdStub(full, c, recv, args, sig, st); ok {
		if full == "(reflect.Value).Elem" && recv != nil && len(res) == 1 && e.bound == 0 {
			// Elem of a non-nil pointer or interface is a valid Value (of a nil one it is the zero Value, on which
			// every setter panics with a *reflect.ValueError)
			if m, _, _ := types.LookupFieldOrMethod(recv.Typ, false, nil, "IsNil"); m != nil {
				if mf, ok := m.(*types.Func); ok {
					isNil := e.pureUF("(reflect.Value).IsNil", mf.Type().(*types.Signature), recv, nil, st)
					e.declareFun("rv_valid", []string{e.sortOf(recv.Typ)}, "Bool")
					e.assume(st.pc, implies(not(isNil[0].T), sx("rv_valid", res[0].T)))
					e.stubsUsed["(reflect.Value).Elem: the result is a valid Value when the operand is not nil"] = true
				}
			}
		}
		if full == "(reflect.Value).IsValid" && recv != nil && len(res) == 1 && e.bound == 0 {
			e.declareFun("rv_valid", []string{e.sortOf(recv.Typ)}, "Bool")
			e.assume(st.pc, eq(res[0].T, sx("rv_valid", recv.T)))
		}
		if full == "reflect.ValueOf" && len(args) == 1 && len(res) == 1 && e.bound == 0 {
			// the Value of an interface is valid exactly when the interface is not nil
			e.declareFun("rv_valid", []string{e.sortOf(res[0].Typ)}, "Bool")
			e.assume(st.pc, eq(sx("rv_valid", res[0].T), not(e.isNil(args[0]))))
			e.stubsUsed["reflect.ValueOf: the result is the zero (invalid) Value exactly when the argument is a nil interface"] = true
		}
		return res
	}
	ct := e.contractFor(fn)
	decl, pk := e.declOf(fn)
	// a unit that only carries a safety sweep (no requires/ensures) says nothing a caller could use: inline it when possible
	bare := ct != nil && !ct.Trusted && len(ct.Requires) == 0 && len(ct.Ensures) == 0 && decl != nil && e.inlinable(decl)
	if ct != nil && ct.Clause == nil && (e.spec == 0 || !e.canInlineSpec(decl, fn) || ct.Opts["function"] != "") && !(ct.Opts["inline"] == "always") && !bare {
		return e.applyContract(c, fn, ct, pk, decl, sig, recv, args, st)
	}
	if decl != nil && (e.inlinable(decl) || e.spec > 0 && e.canInlineSpec(decl, fn)) && len(e.inlineStack) < 6 && !e.onStack(full) {
		return e.inlineCall(c, fn, decl, pk, sig, recv, args, st)
	}
	if e.spec > 0 {
		// uninterpreted spec function of its arguments
		return []Value{e.specUF(fn, sig, recv, args)}
	}
	e.abstract("call "+full+" (no contract, not inlinable: results and heap havocked)", c.Pos())
	e.havocAll(st)
	return e.havocResults(st, sig, fn.Name())
}

func (e *Engine) onStack(full string) bool {
	for _, s := range e.inlineStack {
		if s == full {
			return true
		}
	}
	return false
}

func (e *Engine) canInlineSpec(decl *ast.FuncDecl, fn *types.Func) bool {
	if decl == nil {
		return false
	}
	return e.inlinable(decl) && !e.onStack(fn.FullName())
}

func (e *Engine) specUF(fn *types.Func, sig *types.Signature, recv *Value, args []Value) Value {
	name := "uf_" + mangle(fn.FullName())
	var as, ss []string
	if recv != nil {
		as = append(as, recv.T)
		ss = append(ss, e.sortOf(recv.Typ))
	}
	for i, a := range args {
		as = append(as, a.T)
		ss = append(ss, e.sortOf(sig.Params().At(i).Type()))
	}
	rt := sig.Results().At(0).Type()
	e.declareFun(name, ss, e.sortOf(rt))
	e.specFuncsUsed[fn.FullName()] = fn
	if len(as) == 0 {
		return Value{name, rt}
	}
	return Value{sx(name, as...), rt}
}

// inlineCall executes the callee body in place.
func (e *Engine) inlineCall(c *ast.CallExpr, fn *types.Func, decl *ast.FuncDecl, pk *Pkg, sig *types.Signature, recv *Value, args []Value, st *State) []Value {
	e.inlined[fn.FullName()] = true
	savedPk, savedFr, savedPrefix := e.pk, e.fr, e.prefix
	e.pk = pk
	e.inlineStack = append(e.inlineStack, fn.Name())
	e.prefix = e.inlPrefix()
	defer func() {
		e.pk, e.fr, e.prefix = savedPk, savedFr, savedPrefix
		e.inlineStack = e.inlineStack[:len(e.inlineStack)-1]
	}()
	fr := &frame{fn: fn.FullName(), parent: savedFr, decl: decl}
	e.fr = fr
	// bind receiver and params
	if decl.Recv != nil && len(decl.Recv.List) > 0 && len(decl.Recv.List[0].Names) > 0 && recv != nil {
		if obj := pk.Info.Defs[decl.Recv.List[0].Names[0]]; obj != nil {
			e.bindParam(st, obj, *recv)
		}
	}
	i := 0
	for _, f := range decl.Type.Params.List {
		for _, id := range f.Names {
			if obj := pk.Info.Defs[id]; obj != nil && id.Name != "_" {
				e.bindParam(st, obj, args[i])
			}
			i++
		}
		if len(f.Names) == 0 {
			i++
		}
	}
	e.bindResults(fr, decl, pk, st)
	end := e.execBlock(decl.Body.List, st)
	if end != nil {
		fr.returns = append(fr.returns, end)
	}
	m := e.merge(fr.returns)
	if m == nil {
		// callee never returns on this path
		st.pc = "false"
		var out []Value
		for _, t := range fr.restyps {
			out = append(out, e.zero(t))
		}
		return out
	}
	*st = *m
	var out []Value
	for i, k := range fr.results {
		var v Value
		if obj, ok := k.(types.Object); ok {
			v = e.lookupVarIn(st, obj)
		} else {
			v = st.vars[k]
		}
		v.Typ = fr.restyps[i]
		out = append(out, v)
	}
	return out
}

func (e *Engine) lookupVarIn(st *State, obj types.Object) Value {
	v, ok := st.vars[obj]
	if !ok {
		return e.zero(obj.Type())
	}
	if e.boxed[obj] {
		return e.loadPtr(st, v.T, obj.Type())
	}
	return v
}

func (e *Engine) bindParam(st *State, obj types.Object, v Value) {
	v.Typ = obj.Type()
	if e.spec > 0 {
		st.vars[obj] = v
		return
	}
	e.declVar(st, obj, v)
}

func (e *Engine) bindResults(fr *frame, decl *ast.FuncDecl, pk *Pkg, st *State) {
	e.bindResultsOf(fr, decl.Type, pk, st)
}

func (e *Engine) bindResultsOf(fr *frame, ft *ast.FuncType, pk *Pkg, st *State) {
	if ft.Results == nil {
		return
	}
	n := 0
	for _, f := range ft.Results.List {
		t := pk.Info.TypeOf(f.Type)
		if len(f.Names) == 0 {
			k := &synth{fmt.Sprintf("ret%d_%d", n, len(e.inlineStack))}
			fr.results = append(fr.results, k)
			fr.restyps = append(fr.restyps, t)
			st.vars[k] = e.zero(t)
			n++
			continue
		}
		for _, id := range f.Names {
			obj := pk.Info.Defs[id]
			if obj == nil { // blank
				k := &synth{fmt.Sprintf("ret%d_%d", n, len(e.inlineStack))}
				fr.results = append(fr.results, k)
				fr.restyps = append(fr.restyps, t)
				st.vars[k] = e.zero(t)
			} else {
				fr.results = append(fr.results, obj)
				fr.restyps = append(fr.restyps, t)
				if e.spec > 0 {
					st.vars[obj] = e.zero(t)
				} else {
					e.declVar(st, obj, e.zero(t))
				}
			}
			n++
		}
	}
}

func (e *Engine) inlineClosure(c *ast.CallExpr, lit *ast.FuncLit, args []Value, st *State) []Value {
	savedFr := e.fr
	e.inlineStack = append(e.inlineStack, fmt.Sprintf("closure@%d", e.pk.Fset.Position(lit.Pos()).Line))
	savedPrefix := e.prefix
	e.prefix = e.inlPrefix()
	defer func() {
		e.fr = savedFr
		e.prefix = savedPrefix
		e.inlineStack = e.inlineStack[:len(e.inlineStack)-1]
	}()
	fr := &frame{fn: "closure", parent: savedFr}
	e.fr = fr
	i := 0
	for _, f := range lit.Type.Params.List {
		for _, id := range f.Names {
			if obj := e.pk.Info.Defs[id]; obj != nil && id.Name != "_" {
				e.bindParam(st, obj, args[i])
			}
			i++
		}
		if len(f.Names) == 0 {
			i++
		}
	}
	fd := &ast.FuncDecl{Type: lit.Type, Body: lit.Body}
	e.bindResults(fr, fd, e.pk, st)
	end := e.execBlock(lit.Body.List, st)
	if end != nil {
		fr.returns = append(fr.returns, end)
	}
	m := e.merge(fr.returns)
	if m == nil {
		st.pc = "false"
		var out []Value
		for _, t := range fr.restyps {
			out = append(out, e.zero(t))
		}
		return out
	}
	*st = *m
	var out []Value
	for i, k := range fr.results {
		var v Value
		if obj, ok := k.(types.Object); ok {
			v = e.lookupVarIn(st, obj)
		} else {
			v = st.vars[k]
		}
		v.Typ = fr.restyps[i]
		out = append(out, v)
	}
	return out
}

// applyContract: assert requires, havoc modifies, assume ensures.
func (e *Engine) applyContract(c *ast.CallExpr, fn *types.Func, ct *Contract, pk *Pkg, decl *ast.FuncDecl, sig *types.Signature, recv *Value, args []Value, st *State) []Value {
	e.calleeContracts[pkgShort(pk.Path)+"."+ct.Name] = true
	if ct.Trusted {
		e.stubsUsed["trusted contract: "+pkgShort(pk.Path)+"."+ct.Name] = true
	}
	savedPk := e.pk
	e.pk = pk
	defer func() { e.pk = savedPk }()
	// callee-scope state: parameters bound to the arguments
	cs := st.clone()
	bind := func(s *State) {
		if decl.Recv != nil && len(decl.Recv.List) > 0 && len(decl.Recv.List[0].Names) > 0 && recv != nil {
			if obj := pk.Info.Defs[decl.Recv.List[0].Names[0]]; obj != nil {
				v := *recv
				v.Typ = obj.Type()
				s.vars[obj] = v
			}
		}
		i := 0
		for _, f := range decl.Type.Params.List {
			for _, id := range f.Names {
				if obj := pk.Info.Defs[id]; obj != nil && id.Name != "_" {
					v := args[i]
					v.Typ = obj.Type()
					s.vars[obj] = v
				}
				i++
			}
			if len(f.Names) == 0 {
				i++
			}
		}
	}
	bind(cs)
	if e.spec == 0 {
		for i, rq := range ct.Requires {
			e.spec++
			v := e.ev(rq.Expr, cs)
			e.spec--
			e.obligeNamed(st, fmt.Sprintf("pre:%s#%d@%d", fn.Name(), i, e.callSite(fn.Name())), "pre", v.T, c.Pos(), fmt.Sprintf("precondition %q of %s", rq.Text, ct.Name), "")
		}
	}
	// havoc
	if ct.ModSet {
		for _, h := range ct.Modifies {
			switch h {
			case "all":
				e.havocAll(st)
			case "nothing":
			default:
				e.havocHeap(st, h)
			}
		}
		if ct.Opts["allocates"] != "" {
			nt := e.fresh("top", e.isort())
			e.assume("true", e.le(st.top, nt))
			st.top = nt
		}
	} else if !ct.Pure {
		m := e.calleeMods(fn)
		if m.all {
			e.havocAll(st)
		} else {
			var hs []string
			for h := range m.heaps {
				hs = append(hs, h)
			}
			sort.Strings(hs)
			for _, h := range hs {
				e.havocHeap(st, h)
			}
			if m.alloc {
				nt := e.fresh("top", e.isort())
				e.assume("true", e.le(st.top, nt))
				st.top = nt
			}
		}
	}
	// results
	var res []Value
	post := st.clone()
	bind(post)
	savedEntry := e.entry
	e.entry = cs
	ri := 0
	if decl.Type.Results != nil {
		for _, f := range decl.Type.Results.List {
			t := pk.Info.TypeOf(f.Type)
			names := f.Names
			cnt := len(names)
			if cnt == 0 {
				cnt = 1
			}
			for j := 0; j < cnt; j++ {
				var v Value
				if ct.Opts["function"] != "" && recv == nil {
					// a mathematical function of its (scalar) arguments: every call is the same application
					fname := "fn_" + mangle(pkgShort(pk.Path)+"_"+fn.Name()) + fmt.Sprint(ri)
					var srts, ts []string
					for _, a := range args {
						srts = append(srts, e.sortOf(a.Typ))
						ts = append(ts, a.T)
					}
					e.declareFun(fname, srts, e.sortOf(t))
					v = Value{sx(fname, ts...), t}
					if e.bound == 0 {
						if rf := e.rangeFact(v.T, t); rf != "" && rf != "true" {
							e.assume(st.pc, rf)
						}
					}
				} else {
					v = e.havocValue(fn.Name()+"_res", t)
				}
				e.refBound(st, v)
				res = append(res, v)
				if len(names) > 0 {
					if obj := pk.Info.Defs[names[j]]; obj != nil {
						post.vars[obj] = v
					}
				}
				if ri < len(ct.ResVars) {
					if obj := e.resVarObj(pk, ct, ct.ResVars[ri]); obj != nil {
						post.vars[obj] = v
					}
				}
				ri++
			}
		}
	}
	e.calleePost++
	e.calleeGhosts = map[string]Value{}
	for _, en := range ct.Ensures {
		if e.bound > 0 {
			// under a binder the facts would mention bound variables; the application alone is returned
			break
		}
		e.spec++
		v := e.ev(en.Expr, post)
		e.spec--
		e.assume(st.pc, v.T)
	}
	if ct.Opts["function"] != "" && recv == nil {
		e.functionAxioms(fn, ct, pk, decl, args, post)
	}
	e.calleePost--
	e.entry = savedEntry
	return res
}

// functionAxioms: for a callee that is a mathematical function (`opt function yes`), the clauses written `axiom E` hold
// for every value of the integer parameters, not only for the arguments of this call: they are assumed once per
// combination of the other arguments, universally quantified with the function application as trigger. Sound when
// the memory the clause reads is not written between the calls (the clause is evaluated in the state of this call).
func (e *Engine) functionAxioms(fn *types.Func, ct *Contract, pk *Pkg, decl *ast.FuncDecl, args []Value, post *State) {
	var axs []*Clause
	for _, en := range ct.Ensures {
		if en.Kind == "axiom" {
			axs = append(axs, en)
		}
	}
	if len(axs) == 0 || decl.Type.Results == nil {
		return
	}
	fname := "fn_" + mangle(pkgShort(pk.Path)+"_"+fn.Name()) + "0"
	var ts, binders []string
	q := post.clone()
	i := 0
	key := "fnaxiom:" + fname
	for _, f := range decl.Type.Params.List {
		for _, id := range f.Names {
			if i >= len(args) {
				return
			}
			a := args[i]
			obj := pk.Info.Defs[id]
			if isInt(a.Typ) && !e.bv {
				b := fmt.Sprintf("p!ax%d", i)
				binders = append(binders, fmt.Sprintf("(%s %s)", b, e.isort()))
				ts = append(ts, b)
				if obj != nil {
					q.vars[obj] = Value{b, obj.Type()}
				}
			} else {
				ts = append(ts, a.T)
				key += ":" + a.T
			}
			i++
		}
	}
	if len(binders) == 0 || e.declared[key] {
		return
	}
	e.declared[key] = true
	app := sx(fname, ts...)
	if len(ct.ResVars) > 0 {
		if obj := e.resVarObj(pk, ct, ct.ResVars[0]); obj != nil {
			q.vars[obj] = Value{app, obj.Type()}
		}
	}
	for _, f := range decl.Type.Results.List {
		for _, id := range f.Names {
			if obj := pk.Info.Defs[id]; obj != nil {
				q.vars[obj] = Value{app, obj.Type()}
			}
		}
	}
	for _, ax := range axs {
		e.spec++
		e.bound++
		v := e.ev(ax.Expr, q)
		e.bound--
		e.spec--
		e.assumes = append(e.assumes, fmt.Sprintf("(forall (%s) (! %s :pattern (%s)))", strings.Join(binders, " "), v.T, app))
	}
	e.stubsUsed["axiom clauses of "+pkgShort(pk.Path)+"."+ct.Name+" used universally (proved as postconditions in its own unit)"] = true
}

func (e *Engine) callSite(name string) int {
	k := "site:" + name
	n := e.cnt[k]
	e.cnt[k] = n + 1
	return n
}

// resVarObj finds the injected `var result T` object of a contract.
func (e *Engine) resVarObj(pk *Pkg, ct *Contract, name string) types.Object {
	for _, s := range ct.PreDecls {
		if ds, ok := s.(*ast.DeclStmt); ok {
			for _, sp := range ds.Decl.(*ast.GenDecl).Specs {
				for _, id := range sp.(*ast.ValueSpec).Names {
					if id.Name == name {
						return pk.Info.Defs[id]
					}
				}
			}
		}
	}
	return nil
}

// ---------------- builtins ----------------

func (e *Engine) evBuiltin(name string, c *ast.CallExpr, st *State) []Value {
	it := types.Typ[types.Int]
	asInt := func(t string) Value {
		return Value{t, it}
	}
	switch name {
	case "len", "cap":
		v := e.ev(c.Args[0], st)
		switch u := types.Unalias(v.Typ).Underlying().(type) {
		case *types.Basic:
			return []Value{asInt(sx("s_len", v.T))}
		case *types.Slice:
			if name == "cap" {
				return []Value{asInt(sx("l_cap", v.T))}
			}
			return []Value{asInt(e.slcLen(v.T))}
		case *types.Array:
			return []Value{asInt(e.ilit(fmt.Sprint(u.Len())))}
		case *types.Pointer:
			return []Value{asInt(e.ilit(fmt.Sprint(u.Elem().Underlying().(*types.Array).Len())))}
		case *types.Map:
			return []Value{asInt(e.mapLen(st, v, u))}
		case *types.Chan:
			r := e.havocValue("chanlen", it)
			e.assume("true", e.le(e.izero(), r.T))
			return []Value{r}
		}
	case "panic":
		pv := e.ev(c.Args[0], st)
		if len(e.c.PanicPost) > 0 && len(e.inlineStack) == 0 && e.spec == 0 {
			if obj := e.resVarObj(e.pk, e.c, "panicval"); obj != nil {
				s2 := st.clone()
				s2.vars[obj] = e.coerce(pv, obj.Type(), s2)
				site := e.callSite("panic")
				for i, pp := range e.c.PanicPost {
					e.spec++
					v := e.ev(pp.Expr, s2)
					e.spec--
					e.obligeNamed(st, fmt.Sprintf("panicpost#%d@%d", i, site), "post", v.T, c.Pos(), fmt.Sprintf("value of the panic satisfies %q", pp.Text), pp.Prop)
				}
			}
		}
		if !e.c.Panics {
			e.oblige(st, "panic", "false", c.Pos(), "explicit panic is unreachable: "+exprStr(c))
		}
		st.pc = "false"
		return nil
	case "print", "println":
		for _, a := range c.Args {
			e.ev(a, st)
		}
		return nil
	case "recover":
		return []Value{e.havocValue("recovered", e.typeOf(c))}
	case "close":
		e.ev(c.Args[0], st)
		e.abstract("close(channel)", c.Pos())
		return nil
	case "min", "max":
		v := e.ev(c.Args[0], st)
		rt := e.typeOf(c)
		for _, a := range c.Args[1:] {
			w := e.ev(a, st)
			var cmp string
			if name == "min" {
				cmp = e.compare(token.LEQ, v, w, c.Pos())
			} else {
				cmp = e.compare(token.GEQ, v, w, c.Pos())
			}
			v = Value{ite(cmp, v.T, w.T), rt}
		}
		v.Typ = rt
		return []Value{v}
	case "new":
		t := e.typeOf(c.Args[0])
		r := e.alloc(st)
		e.storePtr(st, r, e.zero(t))
		return []Value{{r, e.typeOf(c)}}
	case "make":
		t := e.typeOf(c.Args[0])
		switch u := types.Unalias(t).Underlying().(type) {
		case *types.Slice:
			ln := e.idx64(e.ev(c.Args[1], st))
			cp := ln
			if len(c.Args) > 2 {
				cp = e.idx64(e.ev(c.Args[2], st))
			}
			e.oblige(st, "make", and(e.le(e.izero(), ln), e.le(ln, cp), e.le(cp, e.ilit(maxLen))), c.Pos(), "make: 0 <= len <= cap (and within the assumed maximum length)")
			r := e.alloc(st)
			hn := elemHeapName(u.Elem())
			srt := e.arrSort(e.arrSort(e.sortOf(u.Elem())))
			h := e.heapGet(st, hn, srt)
			z := e.zero(u.Elem())
			e.heapSet(st, hn, srt, sx("store", h, r, fmt.Sprintf("((as const %s) %s)", e.arrSort(e.sortOf(u.Elem())), z.T)))
			return []Value{{sx("mk-slc", r, e.izero(), ln, cp), t}}
		case *types.Map:
			for _, a := range c.Args[1:] {
				e.ev(a, st)
			}
			r := e.alloc(st)
			v := Value{r, t}
			e.mapInit(st, v, u)
			return []Value{v}
		case *types.Chan:
			for _, a := range c.Args[1:] {
				e.ev(a, st)
			}
			return []Value{{e.alloc(st), t}}
		}
	case "append":
		return []Value{e.evAppend(c, st)}
	case "copy":
		return []Value{e.evCopy(c, st)}
	case "delete":
		m := e.ev(c.Args[0], st)
		mt := types.Unalias(m.Typ).Underlying().(*types.Map)
		k := e.coerce(e.ev(c.Args[1], st), mt.Key(), st)
		e.mapDelete(st, m, mt, k)
		return nil
	case "real", "imag", "complex":
		var as []Value
		for _, a := range c.Args {
			as = append(as, e.ev(a, st))
		}
		return []Value{e.opaque(name, e.typeOf(c), as...)}
	case "clear":
		e.ev(c.Args[0], st)
		e.havocAll(st)
		e.abstract("clear()", c.Pos())
		return nil
	}
	e.fail(c.Pos(), "builtin %s", name)
	return nil
}

func (e *Engine) slcLen(t string) string {
	if strings.HasPrefix(t, "(mk-slc ") {
		a := splitArgs(t[8 : len(t)-1])
		if len(a) == 4 {
			return a[2]
		}
	}
	return sx("l_len", t)
}

// evAppend models append: if it fits in capacity the backing array is shared, else a fresh one.
func (e *Engine) evAppend(c *ast.CallExpr, st *State) Value {
	s := e.ev(c.Args[0], st)
	slt := types.Unalias(s.Typ).Underlying().(*types.Slice)
	hn := elemHeapName(slt.Elem())
	srt := e.arrSort(e.arrSort(e.sortOf(slt.Elem())))
	esrt := e.arrSort(e.sortOf(slt.Elem()))
	s.T = e.nameTerm("apps", "Slc", s.T)
	ln, cp, off, ref := sx("l_len", s.T), sx("l_cap", s.T), sx("l_off", s.T), sx("l_ref", s.T)
	if c.Ellipsis.IsValid() {
		// append(s, t...) : contents via a quantified copy
		tv := e.ev(c.Args[1], st)
		var tl string
		var src func(k string) string
		if isString(tv.Typ) {
			tl = sx("s_len", tv.Typ.String())
			tl = sx("s_len", tv.T)
			src = func(k string) string { return sx("select", sx("s_arr", tv.T), e.add(sx("s_off", tv.T), k)) }
		} else {
			tl = sx("l_len", tv.T)
			h0 := e.heapGet(st, hn, srt)
			src = func(k string) string {
				return sx("select", sx("select", h0, sx("l_ref", tv.T)), e.add(sx("l_off", tv.T), k))
			}
		}
		nl := e.add(ln, tl)
		fitsC := e.le(nl, cp)
		h := e.heapGet(st, hn, srt)
		r := e.alloc(st)
		narr := e.fresh("apparr", esrt)
		k := "k!a"
		// new array: prefix from old (relative to resulting offset), suffix from t
		resRef := ite(fitsC, ref, r)
		resOff := ite(fitsC, off, e.izero())
		ncap := e.fresh("appcap", e.isort())
		e.assume("true", and(e.le(nl, ncap), e.le(ncap, e.ilit(maxLen)), implies(fitsC, eq(ncap, cp))))
		oldArr := sx("select", h, ref)
		e.assume("true", fmt.Sprintf("(forall ((%s %s)) (! (=> (and %s %s) (= (select %s %s) %s)) :pattern ((select %s %s))))",
			k, e.isort(), e.le(e.izero(), sx("-", k, resOff)), e.lt(sx("-", k, resOff), ln), narr, k, sx("select", oldArr, e.add(off, sx("-", k, resOff))), narr, k))
		e.assume("true", fmt.Sprintf("(forall ((%s %s)) (! (=> (and %s %s) (= (select %s %s) %s)) :pattern ((select %s %s))))",
			k, e.isort(), e.le(ln, sx("-", k, resOff)), e.lt(sx("-", k, resOff), nl), narr, k, src(sx("-", sx("-", k, resOff), ln)), narr, k))
		// outside the written window the shared array is unchanged
		e.assume("true", implies(fitsC, fmt.Sprintf("(forall ((%s %s)) (! (=> (or %s %s) (= (select %s %s) (select %s %s))) :pattern ((select %s %s))))",
			k, e.isort(), e.lt(k, e.add(off, ln)), e.le(e.add(off, nl), k), narr, k, oldArr, k, narr, k)))
		e.heapSet(st, hn, srt, sx("store", h, resRef, narr))
		return Value{sx("mk-slc", resRef, resOff, nl, ncap), s.Typ}
	}
	var elems []Value
	for _, a := range c.Args[1:] {
		elems = append(elems, e.coerce(e.ev(a, st), slt.Elem(), st))
	}
	n := len(elems)
	if n == 0 {
		return s
	}
	nl := e.add(ln, e.ilit(fmt.Sprint(n)))
	fitsC := e.le(nl, cp)
	h := e.heapGet(st, hn, srt)
	// in-place branch
	arrIn := sx("select", h, ref)
	for i, el := range elems {
		arrIn = sx("store", arrIn, e.add(e.add(off, ln), e.ilit(fmt.Sprint(i))), el.T)
	}
	// fresh branch: array whose first ln elements equal the old ones
	r := e.alloc(st)
	narr := e.fresh("apparr", esrt)
	k := "k!a"
	e.assume("true", fmt.Sprintf("(forall ((%s %s)) (! (=> (and %s %s) (= (select %s %s) (select %s %s))) :pattern ((select %s %s))))",
		k, e.isort(), e.le(e.izero(), k), e.lt(k, ln), narr, k, sx("select", h, ref), e.add(off, k), narr, k))
	arrNew := narr
	for i, el := range elems {
		arrNew = sx("store", arrNew, e.add(ln, e.ilit(fmt.Sprint(i))), el.T)
	}
	ncap := e.fresh("appcap", e.isort())
	e.assume("true", and(e.le(nl, ncap), e.le(ncap, e.ilit(maxLen))))
	resRef := ite(fitsC, ref, r)
	e.heapSet(st, hn, srt, sx("store", h, resRef, ite(fitsC, arrIn, arrNew)))
	return Value{e.nameTerm("appres", "Slc", sx("mk-slc", resRef, ite(fitsC, off, e.izero()), nl, ite(fitsC, cp, ncap))), s.Typ}
}

func (e *Engine) evCopy(c *ast.CallExpr, st *State) Value {
	dst := e.ev(c.Args[0], st)
	src := e.ev(c.Args[1], st)
	slt := types.Unalias(dst.Typ).Underlying().(*types.Slice)
	hn := elemHeapName(slt.Elem())
	srt := e.arrSort(e.arrSort(e.sortOf(slt.Elem())))
	esrt := e.arrSort(e.sortOf(slt.Elem()))
	dl := sx("l_len", dst.T)
	var sl string
	var srcAt func(k string) string
	h := e.heapGet(st, hn, srt)
	if isString(src.Typ) {
		sl = sx("s_len", src.T)
		srcAt = func(k string) string { return sx("select", sx("s_arr", src.T), e.add(sx("s_off", src.T), k)) }
	} else {
		sl = sx("l_len", src.T)
		srcAt = func(k string) string {
			return sx("select", sx("select", h, sx("l_ref", src.T)), e.add(sx("l_off", src.T), k))
		}
	}
	n := e.nameTerm("ncopy", e.isort(), ite(e.le(dl, sl), dl, sl))
	if e.bound > 0 {
		return Value{n, types.Typ[types.Int]}
	}
	narr := e.fresh("cparr", esrt)
	k := "k!c"
	doff := sx("l_off", dst.T)
	old := sx("select", h, sx("l_ref", dst.T))
	e.assume("true", fmt.Sprintf("(forall ((%s %s)) (! (= (select %s %s) (ite (and %s %s) %s (select %s %s))) :pattern ((select %s %s))))",
		k, e.isort(), narr, k, e.le(doff, k), e.lt(k, e.add(doff, n)), srcAt(e.sub(k, doff)), old, k, narr, k))
	if e.declared["BSeq"] && e.sortOf(slt.Elem()) == e.byteSort() && !e.bv {
		// the same facts at the level of byte sequences (bseq(a,i,j) depends only on a[i..j)): the copied range is the
		// source range, ranges before and after it are unchanged
		var sarr, soff string
		if isString(src.Typ) {
			sarr, soff = sx("s_arr", src.T), sx("s_off", src.T)
		} else {
			sarr, soff = sx("select", h, sx("l_ref", src.T)), sx("l_off", src.T)
		}
		e.assume(st.pc, eq(sx("bseq", narr, doff, e.add(doff, n)), sx("bseq", sarr, soff, e.add(soff, n))))
		e.assume("true", fmt.Sprintf("(forall ((lo!c Int) (hi!c Int)) (! (=> (or (<= hi!c %s) (<= %s lo!c)) (= (bseq %s lo!c hi!c) (bseq %s lo!c hi!c))) :pattern ((bseq %s lo!c hi!c))))",
			doff, e.add(doff, n), narr, old, narr))
		e.stubsUsed["byte sequences depend only on the bytes in their range (copy/store frame facts for bseq)"] = true
	}
	e.heapSet(st, hn, srt, sx("store", h, sx("l_ref", dst.T), narr))
	return Value{n, types.Typ[types.Int]}
}
