package main

import (
	"fmt"
	"go/ast"
	"go/constant"
	"go/token"
	"go/types"
	"math/big"
	"strings"
)

type unsupportedErr struct{ msg string }

func (e *Engine) fail(p token.Pos, format string, a ...any) {
	panic(unsupportedErr{fmt.Sprintf("%s: %s", e.pos(p), fmt.Sprintf(format, a...))})
}

func (e *Engine) typeOf(x ast.Expr) types.Type {
	if tv, ok := e.pk.Info.Types[x]; ok && tv.Type != nil {
		return tv.Type
	}
	if id, ok := x.(*ast.Ident); ok {
		if o := e.pk.Info.ObjectOf(id); o != nil {
			return o.Type()
		}
	}
	e.fail(x.Pos(), "no type for %s", exprStr(x))
	return nil
}

func defaultType(t types.Type) types.Type {
	if b, ok := t.(*types.Basic); ok && b.Info()&types.IsUntyped != 0 {
		return types.Default(t)
	}
	return t
}

// ---------------- constants / zero values ----------------

func (e *Engine) constValue(cv constant.Value, t types.Type, p token.Pos) Value {
	t = defaultType(t)
	switch cv.Kind() {
	case constant.Bool:
		if constant.BoolVal(cv) {
			return Value{"true", t}
		}
		return Value{"false", t}
	case constant.Int:
		if isFloat(t) {
			return Value{e.fltConst(cv.ExactString()), t}
		}
		if _, ok := t.Underlying().(*types.Interface); ok {
			t = types.Typ[types.Int]
		}
		return Value{e.intLit(cv.ExactString(), t), t}
	case constant.String:
		if _, ok := t.Underlying().(*types.Interface); ok {
			t = types.Typ[types.String]
		}
		return Value{e.mkStrLit(constant.StringVal(cv)), t}
	case constant.Float:
		if isInt(t) {
			if i := constant.ToInt(cv); i.Kind() == constant.Int {
				return Value{e.intLit(i.ExactString(), t), t}
			}
		}
		return Value{e.fltConst(cv.ExactString()), t}
	}
	return Value{e.fltConst(cv.ExactString()), t}
}

func (e *Engine) fltConst(s string) string {
	n := "fltc_" + mangle(s)
	e.declare(n, "Flt")
	return n
}

func (e *Engine) intLit(dec string, t types.Type) string {
	if e.bv {
		w := 64
		if b := basicOf(t); b != nil && b.Info()&types.IsInteger != 0 {
			w = intWidth(b)
		}
		return bvLit(dec, w)
	}
	return bigStr(dec)
}

func bvLit(dec string, w int) string {
	n := new(big.Int)
	n.SetString(dec, 10)
	if n.Sign() < 0 {
		m := new(big.Int).Lsh(big.NewInt(1), uint(w))
		n.Add(n, m)
	}
	m := new(big.Int).Lsh(big.NewInt(1), uint(w))
	n.Mod(n, m)
	return fmt.Sprintf("(_ bv%s %d)", n.String(), w)
}

func (e *Engine) strLit(s string) string {
	if s == "" {
		return sx("mk-str", e.constArr("0"), e.izero(), e.izero())
	}
	arr := e.constArr("0")
	for i := 0; i < len(s); i++ {
		arr = sx("store", arr, e.ilit(fmt.Sprint(i)), fmt.Sprint(int(s[i])))
	}
	if len(s) > 8 {
		// name long literals once
		n := "strlit_" + mangle(fmt.Sprintf("%x", s))
		if len(n) > 80 {
			n = n[:80] + fmt.Sprintf("_%d", len(s))
		}
		if !e.declared[n] {
			e.declare(n, e.arrSort(e.byteSort()))
			e.axioms = append(e.axioms, eq(n, arr))
		}
		arr = n
	}
	return sx("mk-str", arr, e.izero(), e.ilit(fmt.Sprint(len(s))))
}

func (e *Engine) byteSort() string {
	if e.bv {
		return "(_ BitVec 8)"
	}
	return "Int"
}

func (e *Engine) constArr(v string) string {
	if e.bv {
		return fmt.Sprintf("((as const (Array (_ BitVec 64) (_ BitVec 8))) (_ bv%s 8))", v)
	}
	return fmt.Sprintf("((as const (Array Int Int)) %s)", v)
}

func (e *Engine) zero(t types.Type) Value {
	t = types.Unalias(t)
	switch u := t.Underlying().(type) {
	case *types.Basic:
		switch {
		case u.Info()&types.IsBoolean != 0:
			return Value{"false", t}
		case u.Info()&types.IsInteger != 0:
			return Value{e.intLit("0", t), t}
		case u.Info()&types.IsString != 0:
			return Value{e.mkStrLit(""), t}
		case u.Info()&(types.IsFloat|types.IsComplex) != 0:
			return Value{e.fltConst("0"), t}
		}
		return Value{e.izero(), t}
	case *types.Slice:
		return Value{sx("mk-slc", e.izero(), e.izero(), e.izero(), e.izero()), t}
	case *types.Interface:
		return Value{sx("mk-ifc", "0", "0"), t}
	case *types.Struct:
		sn := e.sortOf(t)
		var fs []string
		for i := 0; i < u.NumFields(); i++ {
			fs = append(fs, e.zero(u.Field(i).Type()).T)
		}
		if len(fs) == 0 {
			return Value{"mk-" + sn, t}
		}
		return Value{sx("mk-"+sn, fs...), t}
	case *types.Array:
		z := e.zero(u.Elem())
		return Value{fmt.Sprintf("((as const %s) %s)", e.sortOf(t), z.T), t}
	}
	return Value{e.izero(), t}
}

// havocValue returns a fresh symbolic value of type t with its range fact assumed.
func (e *Engine) havocValue(hint string, t types.Type) Value {
	n := e.fresh(hint, e.sortOf(t))
	e.assume("true", e.rangeFact(n, t))
	return Value{n, t}
}

// refBound assumes that reference-like parts of v are <= top.
func (e *Engine) refBound(st *State, v Value) {
	switch types.Unalias(v.Typ).Underlying().(type) {
	case *types.Pointer, *types.Map, *types.Chan:
		e.assume("true", e.le(v.T, st.top))
	case *types.Slice:
		e.assume("true", e.le(sx("l_ref", v.T), st.top))
	}
}

// ---------------- variables ----------------

func (e *Engine) lookupVar(st *State, obj types.Object, p token.Pos) Value {
	if v, ok := st.vars[obj]; ok {
		if e.boxed[obj] {
			return e.loadPtr(st, v.T, obj.Type())
		}
		return v
	}
	if v, ok := e.inputs[obj]; ok {
		return v
	}
	// package-level variable or free variable of a clause unit
	if vr, ok := obj.(*types.Var); ok {
		if vr.Parent() == vr.Pkg().Scope() {
			return e.globalVar(st, vr)
		}
		if e.bound > 0 {
			e.fail(p, "free variable %s first used under a binder", obj.Name())
		}
		v := e.havocValue("in_"+obj.Name(), obj.Type())
		e.refBound(e.entry, v)
		e.inputs[obj] = v
		return v
	}
	e.fail(p, "cannot read %s", obj.Name())
	return Value{}
}

func (e *Engine) globalVar(st *State, vr *types.Var) Value {
	n := "G_" + mangle(vr.Pkg().Name()+"_"+vr.Name())
	if !e.declared[n] {
		e.declare(n, e.sortOf(vr.Type()))
		e.axioms = append(e.axioms, e.rangeFact(n, vr.Type()))
		e.globalFacts(n, vr)
	}
	return Value{n, vr.Type()}
}

// ---------------- expression evaluation ----------------

func (e *Engine) ev(x ast.Expr, st *State) Value {
	vs := e.evMulti(x, st)
	if len(vs) != 1 {
		e.fail(x.Pos(), "expected single value from %s", exprStr(x))
	}
	return vs[0]
}

func (e *Engine) evMulti(x ast.Expr, st *State) []Value {
	if tv, ok := e.pk.Info.Types[x]; ok && tv.Value != nil {
		return []Value{e.constValue(tv.Value, tv.Type, x.Pos())}
	}
	switch x := x.(type) {
	case *ast.ParenExpr:
		return e.evMulti(x.X, st)
	case *ast.CallExpr:
		return e.evCall(x, st)
	case *ast.TypeAssertExpr:
		v, ok := e.evTypeAssert(x, st, false)
		_ = ok
		return []Value{v}
	}
	return []Value{e.ev1(x, st)}
}

func (e *Engine) ev1(x ast.Expr, st *State) Value {
	switch x := x.(type) {
	case *ast.Ident:
		if x.Name == "nil" {
			return e.zero(e.typeOf(x))
		}
		obj := e.pk.Info.ObjectOf(x)
		switch o := obj.(type) {
		case *types.Var:
			return e.lookupVar(st, o, x.Pos())
		case *types.Func:
			return Value{e.funcConst(o), o.Type()}
		case *types.Nil:
			return e.zero(e.typeOf(x))
		}
		e.fail(x.Pos(), "identifier %s", x.Name)
	case *ast.BasicLit:
		e.fail(x.Pos(), "literal without constant value")
	case *ast.UnaryExpr:
		return e.evUnary(x, st)
	case *ast.BinaryExpr:
		return e.evBinary(x, st)
	case *ast.IndexExpr:
		return e.evIndex(x, st)
	case *ast.SliceExpr:
		return e.evSlice(x, st)
	case *ast.SelectorExpr:
		return e.evSelector(x, st)
	case *ast.StarExpr:
		p := e.ev(x.X, st)
		e.oblige(st, "nil", not(eq(p.T, e.izero())), x.Pos(), "nil dereference "+exprStr(x.X))
		return e.loadPtr(st, p.T, e.typeOf(x))
	case *ast.CompositeLit:
		return e.evComposite(x, st)
	case *ast.FuncLit:
		return Value{e.closureConst(x), e.typeOf(x)}
	case *ast.KeyValueExpr:
		e.fail(x.Pos(), "key-value")
	}
	e.fail(x.Pos(), "unsupported expression %T", x)
	return Value{}
}

var closures = map[string]*ast.FuncLit{}

func (e *Engine) closureConst(x *ast.FuncLit) string {
	n := fmt.Sprintf("closure_%d", x.Pos())
	closures[n] = x
	if e.bv {
		e.declare(n, "(_ BitVec 64)")
	} else {
		e.declare(n, "Int")
	}
	return n
}

func (e *Engine) funcConst(o *types.Func) string {
	n := "fn_" + mangle(o.FullName())
	e.declare(n, e.isort())
	return n
}

func (e *Engine) evUnary(x *ast.UnaryExpr, st *State) Value {
	t := e.typeOf(x)
	switch x.Op {
	case token.NOT:
		v := e.ev(x.X, st)
		return Value{not(v.T), t}
	case token.SUB:
		v := e.ev(x.X, st)
		if isFloat(t) {
			return e.opaque("fneg", t, v)
		}
		z := e.zero(t)
		return e.arith(st, token.SUB, z, v, t, x.Pos())
	case token.ADD:
		return e.ev(x.X, st)
	case token.XOR:
		v := e.ev(x.X, st)
		if e.bv {
			return Value{sx("bvnot", v.T), t}
		}
		b := basicOf(t)
		if isUnsigned(b) {
			_, hi := intRange(b)
			return Value{sx("-", hi, v.T), t}
		}
		return Value{sx("-", sx("-", v.T), "1"), t}
	case token.AND:
		return e.evAddrOf(x, st)
	case token.ARROW:
		e.abstract("channel receive", x.Pos())
		return e.havocValue("recv", t)
	}
	e.fail(x.Pos(), "unary %s", x.Op)
	return Value{}
}

func (e *Engine) opaque(name string, t types.Type, args ...Value) Value {
	var as, ss []string
	for _, a := range args {
		as = append(as, a.T)
		ss = append(ss, e.sortOf(a.Typ))
	}
	fn := "op_" + name + "_" + mangle(strings.Join(ss, "_")) + "_" + mangle(e.sortOf(t))
	e.declareFun(fn, ss, e.sortOf(t))
	tm := sx(fn, as...)
	if len(as) == 0 {
		tm = fn
	}
	e.assume("true", e.rangeFact(tm, t))
	return Value{tm, t}
}

func (e *Engine) evAddrOf(x *ast.UnaryExpr, st *State) Value {
	t := e.typeOf(x)
	switch y := unparen(x.X).(type) {
	case *ast.CompositeLit:
		v := e.evComposite(y, st)
		r := e.alloc(st)
		e.storePtr(st, r, v)
		return Value{r, t}
	case *ast.Ident:
		obj := e.pk.Info.ObjectOf(y)
		if e.boxed[obj] {
			if v, ok := st.vars[obj]; ok {
				return Value{v.T, t}
			}
		}
		if vr, ok := obj.(*types.Var); ok && vr.Parent() == vr.Pkg().Scope() {
			n := "GA_" + mangle(vr.Pkg().Name()+"_"+vr.Name())
			e.declare(n, e.isort())
			e.axioms = append(e.axioms, e.lt(e.izero(), n))
			return Value{n, t}
		}
	case *ast.SelectorExpr, *ast.IndexExpr:
		// address of a field or element: opaque non-nil pointer (aliasing not tracked)
		e.abstract("address of field/element "+exprStr(x.X), x.Pos())
		e.ev(x.X, st)
		v := e.havocValue("addr", t)
		e.assume(st.pc, e.lt(e.izero(), v.T))
		return v
	}
	e.fail(x.Pos(), "address-of %s", exprStr(x.X))
	return Value{}
}

func unparen(x ast.Expr) ast.Expr {
	for {
		p, ok := x.(*ast.ParenExpr)
		if !ok {
			return x
		}
		x = p.X
	}
}

// ---- pointers ----

func (e *Engine) loadPtr(st *State, p string, elem types.Type) Value {
	if su, ok := types.Unalias(elem).Underlying().(*types.Struct); ok {
		sn := e.sortOf(elem)
		var fs []string
		for i := 0; i < su.NumFields(); i++ {
			f := su.Field(i)
			fs = append(fs, e.loadField(st, p, elem, f.Name(), f.Type()).T)
		}
		if len(fs) == 0 {
			return Value{"mk-" + sn, elem}
		}
		return Value{sx("mk-"+sn, fs...), elem}
	}
	hn := ptrHeapName(elem)
	srt := e.arrSort(e.sortOf(elem))
	h := e.heapGet(st, hn, srt)
	tm := sx("select", h, p)
	e.assume("true", e.rangeFact(tm, elem))
	v := Value{tm, elem}
	e.refBoundHeap(st, v)
	return v
}

func (e *Engine) refBoundHeap(st *State, v Value) {
	if e.bound > 0 {
		return
	}
	switch types.Unalias(v.Typ).Underlying().(type) {
	case *types.Pointer, *types.Map, *types.Chan:
		e.assume(st.pc, e.le(v.T, st.top))
	case *types.Slice:
		e.assume(st.pc, e.le(sx("l_ref", v.T), st.top))
	}
}

func (e *Engine) storePtr(st *State, p string, v Value) {
	if su, ok := types.Unalias(v.Typ).Underlying().(*types.Struct); ok {
		sn := e.sortOf(v.Typ)
		for i := 0; i < su.NumFields(); i++ {
			f := su.Field(i)
			e.storeField(st, p, v.Typ, f.Name(), Value{e.proj(sn, f.Name(), i, v.T), f.Type()})
		}
		return
	}
	hn := ptrHeapName(v.Typ)
	srt := e.arrSort(e.sortOf(v.Typ))
	h := e.heapGet(st, hn, srt)
	e.heapSet(st, hn, srt, sx("store", h, p, v.T))
}

// proj projects field i of a struct term, simplifying constructor applications.
func (e *Engine) proj(sn, fname string, i int, term string) string {
	ctor := "(mk-" + sn + " "
	if strings.HasPrefix(term, ctor) {
		args := splitArgs(term[len(ctor) : len(term)-1])
		if i < len(args) {
			return args[i]
		}
	}
	return sx(fieldAcc(sn, fname, i), term)
}

func splitArgs(s string) []string {
	var out []string
	d := 0
	start := -1
	for i := 0; i < len(s); i++ {
		c := s[i]
		if c == ' ' && d == 0 {
			if start >= 0 {
				out = append(out, s[start:i])
				start = -1
			}
			continue
		}
		if start < 0 {
			start = i
		}
		if c == '(' {
			d++
		} else if c == ')' {
			d--
		}
	}
	if start >= 0 {
		out = append(out, s[start:])
	}
	return out
}

func (e *Engine) loadField(st *State, p string, structT types.Type, fname string, ft types.Type) Value {
	hn := fieldHeapName(structT, fname)
	srt := e.arrSort(e.sortOf(ft))
	h := e.heapGet(st, hn, srt)
	tm := sx("select", h, p)
	e.assume("true", e.rangeFact(tm, ft))
	if e.c != nil && e.c.Opts["nonnilfields"] != "" {
		// assumed of the data (`opt nonnilfields F...`): pointer fields with these names are never nil in memory
		if _, isPtr := types.Unalias(ft).Underlying().(*types.Pointer); isPtr {
			for _, n := range strings.Fields(e.c.Opts["nonnilfields"]) {
				if n == fname {
					e.assume("true", e.lt(e.izero(), tm))
				}
			}
		}
	}
	if e.c != nil && e.c.Opts["nonnegfields"] != "" {
		// assumed of the data (`opt nonnegfields F...`): integer (array) fields with these names hold no negative value
		for _, n := range strings.Fields(e.c.Opts["nonnegfields"]) {
			if n != fname {
				continue
			}
			switch u := types.Unalias(ft).Underlying().(type) {
			case *types.Array:
				if isInt(u.Elem()) && u.Len() <= 8 && !e.bv {
					for k := int64(0); k < u.Len(); k++ {
						e.assume("true", sx("<=", "0", sx("select", tm, fmt.Sprint(k))))
					}
				}
			case *types.Basic:
				if isInt(ft) && !e.bv {
					e.assume("true", sx("<=", "0", tm))
				}
			}
		}
	}
	v := Value{tm, ft}
	e.refBoundHeap(st, v)
	return v
}

func (e *Engine) storeField(st *State, p string, structT types.Type, fname string, v Value) {
	hn := fieldHeapName(structT, fname)
	srt := e.arrSort(e.sortOf(v.Typ))
	h := e.heapGet(st, hn, srt)
	e.heapSet(st, hn, srt, sx("store", h, p, v.T))
}

// ---- selectors ----

func (e *Engine) evSelector(x *ast.SelectorExpr, st *State) Value {
	sel := e.pk.Info.Selections[x]
	if sel == nil {
		// qualified identifier
		obj := e.pk.Info.ObjectOf(x.Sel)
		switch o := obj.(type) {
		case *types.Var:
			return e.globalVar(st, o)
		case *types.Func:
			return Value{e.funcConst(o), o.Type()}
		}
		e.fail(x.Pos(), "qualified identifier %s", exprStr(x))
	}
	switch sel.Kind() {
	case types.FieldVal:
		base := e.ev(x.X, st)
		return e.fieldPath(st, base, sel.Index(), x.Pos())
	case types.MethodVal:
		e.ev(x.X, st)
		e.abstract("method value "+exprStr(x), x.Pos())
		return e.havocValue("methval", e.typeOf(x))
	}
	e.fail(x.Pos(), "selector kind")
	return Value{}
}

// fieldPath follows a (possibly embedded) field index path from base.
func (e *Engine) fieldPath(st *State, base Value, path []int, p token.Pos) Value {
	cur := base
	for _, idx := range path {
		t := types.Unalias(cur.Typ)
		if pt, ok := t.Underlying().(*types.Pointer); ok {
			e.oblige(st, "nil", not(eq(cur.T, e.izero())), p, "nil dereference")
			su := pt.Elem().Underlying().(*types.Struct)
			f := su.Field(idx)
			cur = e.loadField(st, cur.T, pt.Elem(), f.Name(), f.Type())
			continue
		}
		su, ok := t.Underlying().(*types.Struct)
		if !ok {
			e.fail(p, "field of non-struct %s", t)
		}
		f := su.Field(idx)
		tm := e.proj(e.sortOf(t), f.Name(), idx, cur.T)
		if !strings.HasPrefix(cur.T, "(mk-") {
			e.assume("true", e.rangeFact(tm, f.Type()))
		}
		cur = Value{tm, f.Type()}
	}
	return cur
}

// ---- indexing ----

func (e *Engine) idx64(v Value) string {
	// convert an integer value to index sort
	if !e.bv {
		return v.T
	}
	b := basicOf(v.Typ)
	w := 64
	if b != nil {
		w = intWidth(b)
	}
	if w == 64 {
		return v.T
	}
	if b != nil && isUnsigned(b) {
		return fmt.Sprintf("((_ zero_extend %d) %s)", 64-w, v.T)
	}
	return fmt.Sprintf("((_ sign_extend %d) %s)", 64-w, v.T)
}

func (e *Engine) evIndex(x *ast.IndexExpr, st *State) Value {
	bt := types.Unalias(e.typeOf(x.X))
	// generic instantiation?
	if _, ok := bt.Underlying().(*types.Signature); ok {
		return e.ev(x.X, st)
	}
	base := e.ev(x.X, st)
	rt := e.typeOf(x)
	if mt, ok := bt.Underlying().(*types.Map); ok {
		k := e.ev(x.Index, st)
		v, _ := e.mapGet(st, base, mt, k)
		return v
	}
	i := e.ev(x.Index, st)
	it := e.idx64(i)
	if e.c != nil && e.spec == 0 && len(e.inlineStack) == 0 {
		for _, ia := range e.c.IdxAsserts {
			if exprStr(x.X) == ia.Base {
				e.obligeNamed(st, fmt.Sprintf("idx:%s#%d", ia.Base, e.cnt["idx:"+ia.Base]), "post", and(e.le(e.ilit(ia.Lo), it), e.lt(it, e.ilit(ia.Hi))), x.Pos(),
					fmt.Sprintf("index of %s is in [%s, %s)", exprStr(x), ia.Lo, ia.Hi), ia.Prop)
				e.cnt["idx:"+ia.Base]++
			}
		}
	}
	if pt, ok := bt.Underlying().(*types.Pointer); ok { // pointer to array
		e.oblige(st, "nil", not(eq(base.T, e.izero())), x.Pos(), "nil array pointer")
		base = e.loadPtr(st, base.T, pt.Elem())
		bt = pt.Elem()
	}
	switch u := bt.Underlying().(type) {
	case *types.Basic: // string
		e.oblige(st, "index", and(e.le(e.izero(), it), e.lt(it, sx("s_len", base.T))), x.Pos(), "index "+exprStr(x))
		tm := sx("select", sx("s_arr", base.T), e.add(sx("s_off", base.T), it))
		tm = e.simplifySelect(tm)
		e.assume("true", e.rangeFact(tm, rt))
		return Value{tm, rt}
	case *types.Slice:
		e.oblige(st, "index", and(e.le(e.izero(), it), e.lt(it, sx("l_len", base.T))), x.Pos(), "index "+exprStr(x))
		if tv, ok := e.tableElem(x.X, i, rt); ok {
			return tv
		}
		hn := elemHeapName(u.Elem())
		srt := e.arrSort(e.arrSort(e.sortOf(u.Elem())))
		h := e.heapGet(st, hn, srt)
		tm := sx("select", sx("select", h, sx("l_ref", base.T)), e.add(sx("l_off", base.T), it))
		e.assume("true", e.rangeFact(tm, rt))
		v := Value{tm, rt}
		e.refBoundHeap(st, v)
		return v
	case *types.Array:
		e.oblige(st, "index", and(e.le(e.izero(), it), e.lt(it, e.ilit(fmt.Sprint(u.Len())))), x.Pos(), "index "+exprStr(x))
		if tv, ok := e.tableElem(x.X, i, rt); ok {
			return tv
		}
		tm := sx("select", base.T, it)
		e.assume("true", e.rangeFact(tm, rt))
		v := Value{tm, rt}
		e.refBoundHeap(st, v)
		return v
	}
	e.fail(x.Pos(), "index of %s", bt)
	return Value{}
}

func (e *Engine) simplifySelect(t string) string { return t }

func (e *Engine) evSlice(x *ast.SliceExpr, st *State) Value {
	bt := types.Unalias(e.typeOf(x.X))
	base := e.ev(x.X, st)
	rt := e.typeOf(x)
	var lo, hi, mx string
	lo = e.izero()
	if x.Low != nil {
		lo = e.idx64(e.ev(x.Low, st))
	}
	if pt, ok := bt.Underlying().(*types.Pointer); ok {
		_ = pt
		e.fail(x.Pos(), "slice of array pointer")
	}
	switch u := bt.Underlying().(type) {
	case *types.Basic:
		ln := sx("s_len", base.T)
		hi = ln
		if x.High != nil {
			hi = e.idx64(e.ev(x.High, st))
		}
		e.oblige(st, "slice", and(e.le(e.izero(), lo), e.le(lo, hi), e.le(hi, ln)), x.Pos(), "slice "+exprStr(x))
		return Value{sx("mk-str", sx("s_arr", base.T), e.add(sx("s_off", base.T), lo), e.sub(hi, lo)), rt}
	case *types.Slice:
		ln := sx("l_len", base.T)
		cp := sx("l_cap", base.T)
		hi = ln
		if x.High != nil {
			hi = e.idx64(e.ev(x.High, st))
		}
		mx = cp
		if x.Max != nil {
			mx = e.idx64(e.ev(x.Max, st))
			e.oblige(st, "slice", and(e.le(e.izero(), lo), e.le(lo, hi), e.le(hi, mx), e.le(mx, cp)), x.Pos(), "slice "+exprStr(x))
		} else {
			e.oblige(st, "slice", and(e.le(e.izero(), lo), e.le(lo, hi), e.le(hi, cp)), x.Pos(), "slice "+exprStr(x))
		}
		return Value{sx("mk-slc", sx("l_ref", base.T), e.add(sx("l_off", base.T), lo), e.sub(hi, lo), e.sub(mx, lo)), rt}
	case *types.Array:
		// slicing an addressable array: allocate a backing store snapshot (aliasing with the array variable is not tracked)
		n := e.ilit(fmt.Sprint(u.Len()))
		hi = n
		if x.High != nil {
			hi = e.idx64(e.ev(x.High, st))
		}
		e.oblige(st, "slice", and(e.le(e.izero(), lo), e.le(lo, hi), e.le(hi, n)), x.Pos(), "slice "+exprStr(x))
		e.abstract("slice of array variable (copy semantics) "+exprStr(x.X), x.Pos())
		r := e.alloc(st)
		hn := elemHeapName(u.Elem())
		srt := e.arrSort(e.arrSort(e.sortOf(u.Elem())))
		h := e.heapGet(st, hn, srt)
		e.heapSet(st, hn, srt, sx("store", h, r, base.T))
		return Value{sx("mk-slc", r, lo, e.sub(hi, lo), e.sub(n, lo)), rt}
	}
	e.fail(x.Pos(), "slice of %s", bt)
	return Value{}
}

// ---- composite literals ----

func (e *Engine) evComposite(x *ast.CompositeLit, st *State) Value {
	v := e.evComposite0(x, st)
	e.litAsserts(x, v, st)
	return v
}

func (e *Engine) evComposite0(x *ast.CompositeLit, st *State) Value {
	t := e.typeOf(x)
	if pt, ok := types.Unalias(t).Underlying().(*types.Pointer); ok {
		// an element of a slice or map literal written without its type, where the element type is *T: `{...}` is &T{...}
		v := e.evCompositeOf(x, pt.Elem(), st)
		r := e.alloc(st)
		e.storePtr(st, r, v)
		return Value{r, t}
	}
	return e.evCompositeOf(x, t, st)
}

func (e *Engine) evCompositeOf(x *ast.CompositeLit, t types.Type, st *State) Value {
	switch u := types.Unalias(t).Underlying().(type) {
	case *types.Struct:
		sn := e.sortOf(t)
		vals := make([]string, u.NumFields())
		for i := range vals {
			vals[i] = e.zero(u.Field(i).Type()).T
		}
		for i, el := range x.Elts {
			if kv, ok := el.(*ast.KeyValueExpr); ok {
				name := kv.Key.(*ast.Ident).Name
				for j := 0; j < u.NumFields(); j++ {
					if u.Field(j).Name() == name {
						vals[j] = e.coerce(e.ev(kv.Value, st), u.Field(j).Type(), st).T
					}
				}
			} else {
				vals[i] = e.coerce(e.ev(el, st), u.Field(i).Type(), st).T
			}
		}
		if len(vals) == 0 {
			return Value{"mk-" + sn, t}
		}
		return Value{sx("mk-"+sn, vals...), t}
	case *types.Slice:
		arr, n := e.litElems(x, u.Elem(), st)
		r := e.alloc(st)
		hn := elemHeapName(u.Elem())
		srt := e.arrSort(e.arrSort(e.sortOf(u.Elem())))
		h := e.heapGet(st, hn, srt)
		e.heapSet(st, hn, srt, sx("store", h, r, arr))
		ln := e.ilit(fmt.Sprint(n))
		return Value{sx("mk-slc", r, e.izero(), ln, ln), t}
	case *types.Array:
		arr, _ := e.litElems(x, u.Elem(), st)
		return Value{arr, t}
	case *types.Map:
		r := e.alloc(st)
		v := Value{r, t}
		e.mapInit(st, v, u)
		for _, el := range x.Elts {
			kv := el.(*ast.KeyValueExpr)
			k := e.coerce(e.ev(kv.Key, st), u.Key(), st)
			val := e.coerce(e.ev(kv.Value, st), u.Elem(), st)
			e.mapSet(st, v, u, k, val)
		}
		return v
	}
	e.fail(x.Pos(), "composite literal of %s", t)
	return Value{}
}

func (e *Engine) litElems(x *ast.CompositeLit, elem types.Type, st *State) (string, int) {
	z := e.zero(elem)
	arr := fmt.Sprintf("((as const %s) %s)", e.arrSort(e.sortOf(elem)), z.T)
	idx := 0
	max := 0
	for _, el := range x.Elts {
		var ve ast.Expr = el
		if kv, ok := el.(*ast.KeyValueExpr); ok {
			tv := e.pk.Info.Types[kv.Key]
			if tv.Value == nil {
				e.fail(kv.Pos(), "non-constant key")
			}
			n, _ := constant.Int64Val(constant.ToInt(tv.Value))
			idx = int(n)
			ve = kv.Value
		}
		var v Value
		if cl, ok := ve.(*ast.CompositeLit); ok && cl.Type == nil {
			v = e.evComposite(cl, st)
		} else {
			v = e.coerce(e.ev(ve, st), elem, st)
		}
		arr = sx("store", arr, e.ilit(fmt.Sprint(idx)), v.T)
		idx++
		if idx > max {
			max = idx
		}
	}
	return e.nameTerm("lit", e.arrSort(e.sortOf(elem)), arr), max
}

// coerce converts v for assignment to a location of type t (value -> interface boxing).
func (e *Engine) coerce(v Value, t types.Type, st *State) Value {
	if t == nil {
		return v
	}
	_, toIface := types.Unalias(t).Underlying().(*types.Interface)
	_, fromIface := types.Unalias(v.Typ).Underlying().(*types.Interface)
	if _, isTP := types.Unalias(t).(*types.TypeParam); isTP {
		return v
	}
	if toIface && !fromIface {
		if b, ok := v.Typ.(*types.Basic); ok && b.Kind() == types.UntypedNil {
			return e.zero(t)
		}
		return Value{e.box(v), t}
	}
	if toIface && fromIface {
		return Value{v.T, t}
	}
	if b, ok := v.Typ.(*types.Basic); ok && b.Info()&types.IsUntyped != 0 {
		if b.Kind() == types.UntypedNil {
			return e.zero(t)
		}
		return Value{v.T, t}
	}
	return v
}

func (e *Engine) tid(t types.Type) int {
	k := types.TypeString(t, nil)
	if id, ok := e.tids[k]; ok {
		return id
	}
	id := len(e.tids) + 1
	e.tids[k] = id
	if e.tidTypes == nil {
		e.tidTypes = map[int]types.Type{}
	}
	e.tidTypes[id] = t
	return id
}

// implAxioms states, for every concrete type that has a type id and every interface tested dynamically in the unit,
// whether the type implements the interface (decided statically by go/types).
func (e *Engine) implAxioms() {
	// a sentinel error of a package outside the repository (os.ErrNotExist, io.EOF, ...) does not have a dynamic type
	// declared in the repository: it can never be equal to an error value built from one of the repository's types
	for _, n := range e.errGlobals {
		for id, t := range e.tidTypes {
			base := t
			if pt, ok := types.Unalias(t).(*types.Pointer); ok {
				base = pt.Elem()
			}
			nm, ok := types.Unalias(base).(*types.Named)
			if !ok || nm.Obj().Pkg() == nil || e.w.Pkgs[nm.Obj().Pkg().Path()] == nil {
				continue
			}
			k := fmt.Sprintf("sentinel:%s:%d", n, id)
			if !e.declared[k] {
				e.declared[k] = true
				e.axioms = append(e.axioms, not(eq(sx("i_tid", n), fmt.Sprint(id))))
				e.stubsUsed["sentinel errors of packages outside the repository do not have a dynamic type declared in the repository"] = true
			}
		}
	}
	for fn, it := range e.ifaceTypes {
		iface, ok := types.Unalias(it).Underlying().(*types.Interface)
		if !ok {
			continue
		}
		for id, t := range e.tidTypes {
			if _, isIface := types.Unalias(t).Underlying().(*types.Interface); isIface {
				continue
			}
			k := fmt.Sprintf("implax:%s:%d", fn, id)
			if e.declared[k] {
				continue
			}
			e.declared[k] = true
			if types.Implements(t, iface) {
				e.axioms = append(e.axioms, sx(fn, fmt.Sprint(id)))
			} else {
				e.axioms = append(e.axioms, not(sx(fn, fmt.Sprint(id))))
			}
		}
	}
}

func (e *Engine) box(v Value) string {
	t := defaultType(v.Typ)
	srt := e.sortOf(t)
	fn := "box_" + mangle(types.TypeString(t, nil))
	un := "unbox_" + mangle(types.TypeString(t, nil))
	if !e.declared[fn] {
		e.declareFun(fn, []string{srt}, "Int")
		e.declareFun(un, []string{"Int"}, srt)
	}
	// ground instance of unbox(box(x)) == x (what E-matching on the injectivity axiom would produce)
	if e.bound == 0 {
		k := "boxinst:" + fn + ":" + v.T
		if !e.declared[k] {
			e.declared[k] = true
			e.assumes = append(e.assumes, eq(sx(un, sx(fn, v.T)), v.T))
			e.assumes = append(e.assumes, sx("<=", "0", sx(fn, v.T))) // interface payload ids are non-negative (modelling convention)
			if _, isPtr := types.Unalias(t).Underlying().(*types.Pointer); isPtr && e.c != nil && e.c.Opts["typednil"] != "" {
				// typedNil(box(p)) holds exactly when p is nil
				e.declareFun("tnil", []string{"Ifc"}, "Bool")
				e.assumes = append(e.assumes, eq(sx("tnil", sx("mk-ifc", fmt.Sprint(e.tid(t)), sx(fn, v.T))), eq(v.T, e.izero())))
			}
		}
	}
	return sx("mk-ifc", fmt.Sprint(e.tid(t)), sx(fn, v.T))
}

func (e *Engine) unbox(ifc string, t types.Type) Value {
	srt := e.sortOf(t)
	fn := "box_" + mangle(types.TypeString(t, nil))
	un := "unbox_" + mangle(types.TypeString(t, nil))
	if !e.declared[fn] {
		e.declareFun(fn, []string{srt}, "Int")
		e.declareFun(un, []string{"Int"}, srt)
	}
	tm := sx(un, sx("i_val", ifc))
	e.assume("true", e.rangeFact(tm, t))
	if e.bound == 0 {
		// boxing the unboxed payload of a value of dynamic type t gives the payload back
		k := "unboxinst:" + un + ":" + ifc
		if !e.declared[k] {
			e.declared[k] = true
			e.assumes = append(e.assumes, implies(eq(sx("i_tid", ifc), fmt.Sprint(e.tid(t))), eq(sx(fn, tm), sx("i_val", ifc))))
		}
	}
	return Value{tm, t}
}

// evTypeAssert evaluates x.(T); commaOk reports whether the two-valued form is used.
func (e *Engine) evTypeAssert(x *ast.TypeAssertExpr, st *State, commaOk bool) (Value, string) {
	v := e.ev(x.X, st)
	t := e.typeOf(x.Type)
	ok := e.hasType(v, t)
	if !commaOk {
		e.oblige(st, "assert", ok, x.Pos(), "type assertion "+exprStr(x))
	}
	if _, isIface := types.Unalias(t).Underlying().(*types.Interface); isIface {
		return Value{ite(ok, v.T, e.zero(t).T), t}, ok
	}
	u := e.unbox(v.T, t)
	if _, isPtr := types.Unalias(t).Underlying().(*types.Pointer); isPtr && e.c != nil && e.c.Opts["typednil"] != "" && e.bound == 0 {
		// typedNil(v) holds exactly when the pointer held by v is nil (ground instance for this assertion)
		e.declareFun("tnil", []string{"Ifc"}, "Bool")
		e.assumes = append(e.assumes, implies(ok, eq(sx("tnil", v.T), eq(u.T, e.izero()))))
	}
	return Value{ite(ok, u.T, e.zero(t).T), t}, ok
}

// hasType: dynamic type test of interface value v against type t.
func (e *Engine) hasType(v Value, t types.Type) string {
	if iface, isIface := types.Unalias(t).Underlying().(*types.Interface); isIface {
		// implemented-by predicate: uninterpreted over tid, true for known implementers
		if iface.Empty() {
			return not(eq(sx("i_tid", v.T), "0"))
		}
		fn := "impl_" + mangle(types.TypeString(t, nil))
		e.declareFun(fn, []string{"Int"}, "Bool")
		if e.ifaceTypes == nil {
			e.ifaceTypes = map[string]types.Type{}
		}
		e.ifaceTypes[fn] = t
		if !e.declared[fn+"!nil"] {
			e.declared[fn+"!nil"] = true
			e.axioms = append(e.axioms, not(sx(fn, "0")))
		}
		return sx(fn, sx("i_tid", v.T))
	}
	return eq(sx("i_tid", v.T), fmt.Sprint(e.tid(t)))
}

// ---------------- binary expressions ----------------

func (e *Engine) evBinary(x *ast.BinaryExpr, st *State) Value {
	t := e.typeOf(x)
	switch x.Op {
	case token.LAND, token.LOR:
		a := e.ev(x.X, st)
		// evaluate the right operand under the short-circuit condition
		cond := a.T
		if x.Op == token.LOR {
			cond = not(a.T)
		}
		s2 := st.clone()
		s2.pc = and(st.pc, cond)
		b := e.ev(x.Y, s2)
		if e.stateChanged(st, s2) {
			s1 := st.clone()
			s1.pc = and(st.pc, not(cond))
			if m := e.merge([]*State{s2, s1}); m != nil {
				*st = *m
			}
		}
		if x.Op == token.LAND {
			return Value{and(a.T, b.T), t}
		}
		return Value{or(a.T, b.T), t}
	}
	a := e.ev(x.X, st)
	b := e.ev(x.Y, st)
	switch x.Op {
	case token.EQL, token.NEQ:
		r := e.equal(a, b, x.Pos())
		if x.Op == token.NEQ {
			r = not(r)
		}
		return Value{r, t}
	case token.LSS, token.LEQ, token.GTR, token.GEQ:
		return Value{e.compare(x.Op, a, b, x.Pos()), t}
	}
	if isString(t) {
		if x.Op == token.ADD {
			return e.concat(st, a, b, t)
		}
	}
	if isFloat(t) {
		return e.opaque("f"+mangle(x.Op.String()), t, a, b)
	}
	if x.Op == token.SHL || x.Op == token.SHR {
		return e.shift(st, x.Op, a, b, t, x.Pos())
	}
	return e.arith(st, x.Op, a, b, t, x.Pos())
}

func (e *Engine) stateChanged(a, b *State) bool {
	if a.top != b.top || a.epoch != b.epoch || len(a.heaps) != len(b.heaps) {
		return true
	}
	for k, v := range b.heaps {
		if a.heaps[k] != v {
			return true
		}
	}
	for k, v := range b.vars {
		if av, ok := a.vars[k]; ok && av.T != v.T {
			return true
		}
	}
	return false
}

func (e *Engine) equal(a, b Value, p token.Pos) string {
	at := types.Unalias(defaultType(a.Typ))
	bt := types.Unalias(defaultType(b.Typ))
	// nil comparisons
	if isNilType(a.Typ) {
		return e.isNil(b)
	}
	if isNilType(b.Typ) {
		return e.isNil(a)
	}
	_, ai := at.Underlying().(*types.Interface)
	_, bi := bt.Underlying().(*types.Interface)
	if ai && !bi {
		return eq(a.T, e.box(b))
	}
	if bi && !ai {
		return eq(e.box(a), b.T)
	}
	if e.isBseqType(at) || e.isBseqType(bt) {
		return eq(a.T, b.T)
	}
	if isString(at) {
		return e.strEq(a.T, b.T)
	}
	if isFloat(at) {
		fn := "op_feq"
		e.declareFun(fn, []string{"Flt", "Flt"}, "Bool")
		return sx(fn, a.T, b.T)
	}
	if isInt(at) && e.bv {
		return eq(a.T, e.bvCoerce(b, a).T)
	}
	return eq(a.T, b.T)
}

func isNilType(t types.Type) bool {
	b, ok := t.(*types.Basic)
	return ok && b.Kind() == types.UntypedNil
}

func (e *Engine) isNil(v Value) string {
	switch types.Unalias(v.Typ).Underlying().(type) {
	case *types.Slice:
		return eq(sx("l_ref", v.T), e.izero())
	case *types.Interface:
		if strings.HasPrefix(v.T, "(mk-ifc ") {
			a := splitArgs(v.T[8 : len(v.T)-1])
			return eq(a[0], "0")
		}
		return eq(sx("i_tid", v.T), "0")
	}
	return eq(v.T, e.izero())
}

// litBytes recognises literal string terms produced by strLit.
func (e *Engine) litBytes(t string) (string, bool) {
	return "", false
}

func (e *Engine) strEq(a, b string) string {
	if la, ok := e.strLitOf(a); ok {
		return e.strEqLit(b, la)
	}
	if lb, ok := e.strLitOf(b); ok {
		return e.strEqLit(a, lb)
	}
	e.useStreq = true
	return sx("streq", a, b)
}

var strLits = map[string]string{}

func (e *Engine) strLitOf(t string) (string, bool) {
	s, ok := strLits[t]
	return s, ok
}

func (e *Engine) strEqLit(t string, lit string) string {
	cs := []string{eq(sx("s_len", t), e.ilit(fmt.Sprint(len(lit))))}
	if len(lit) <= 64 {
		for i := 0; i < len(lit); i++ {
			cs = append(cs, eq(sx("select", sx("s_arr", t), e.add(sx("s_off", t), e.ilit(fmt.Sprint(i)))), e.byteLit(int(lit[i]))))
		}
		return and(cs...)
	}
	e.useStreq = true
	return sx("streq", t, e.strLit(lit))
}

func (e *Engine) byteLit(b int) string {
	if e.bv {
		return fmt.Sprintf("(_ bv%d 8)", b)
	}
	return fmt.Sprint(b)
}

func (e *Engine) compare(op token.Token, a, b Value, p token.Pos) string {
	t := defaultType(a.Typ)
	if isNilType(t) || (basicOf(t) != nil && basicOf(t).Info()&types.IsUntyped != 0) {
		t = defaultType(b.Typ)
	}
	if isString(t) {
		fn := "op_strlt"
		e.declareFun(fn, []string{"Str", "Str"}, "Bool")
		switch op {
		case token.LSS:
			return sx(fn, a.T, b.T)
		case token.GTR:
			return sx(fn, b.T, a.T)
		case token.LEQ:
			return not(sx(fn, b.T, a.T))
		default:
			return not(sx(fn, a.T, b.T))
		}
	}
	if isFloat(t) {
		fn := "op_flt"
		e.declareFun(fn, []string{"Flt", "Flt"}, "Bool")
		switch op {
		case token.LSS:
			return sx(fn, a.T, b.T)
		case token.GTR:
			return sx(fn, b.T, a.T)
		case token.LEQ:
			return sx("op_fle", a.T, b.T)
		default:
			return sx("op_fle", b.T, a.T)
		}
	}
	if e.bv {
		b = e.bvCoerce(b, a)
		u := isUnsigned(basicOf(t))
		var o string
		switch op {
		case token.LSS:
			o = "bvslt"
			if u {
				o = "bvult"
			}
		case token.LEQ:
			o = "bvsle"
			if u {
				o = "bvule"
			}
		case token.GTR:
			o = "bvsgt"
			if u {
				o = "bvugt"
			}
		case token.GEQ:
			o = "bvsge"
			if u {
				o = "bvuge"
			}
		}
		return sx(o, a.T, b.T)
	}
	switch op {
	case token.LSS:
		return sx("<", a.T, b.T)
	case token.LEQ:
		return sx("<=", a.T, b.T)
	case token.GTR:
		return sx(">", a.T, b.T)
	}
	return sx(">=", a.T, b.T)
}

func (e *Engine) bvCoerce(v Value, like Value) Value { return v }

func (e *Engine) concat(st *State, a, b Value, t types.Type) Value {
	if la, ok := e.strLitOf(a.T); ok {
		if lb, ok2 := e.strLitOf(b.T); ok2 {
			return Value{e.mkStrLit(la + lb), t}
		}
	}
	la, lb := sx("s_len", a.T), sx("s_len", b.T)
	if e.bound > 0 {
		fn := "op_concat"
		e.declareFun(fn, []string{"Str", "Str"}, "Str")
		if e.declared["BSeq"] && !e.declared["op_concat!bseq"] {
			e.declared["op_concat!bseq"] = true
			e.decls = append(e.decls,
				"(assert (forall ((a Str) (b Str)) (! (and (= (s_len (op_concat a b)) (+ (s_len a) (s_len b))) (= (bseq (s_arr (op_concat a b)) (s_off (op_concat a b)) (+ (s_off (op_concat a b)) (s_len (op_concat a b)))) (cat (bseq (s_arr a) (s_off a) (+ (s_off a) (s_len a))) (bseq (s_arr b) (s_off b) (+ (s_off b) (s_len b)))))) :pattern ((op_concat a b)))))")
		}
		return Value{sx(fn, a.T, b.T), t}
	}
	arr := e.fresh("cat", e.arrSort(e.byteSort()))
	k := "k!c"
	srt := e.isort()
	e.assume("true", fmt.Sprintf("(forall ((%s %s)) (! (=> (and %s %s) (= (select %s %s) (select (s_arr %s) %s))) :pattern ((select %s %s))))",
		k, srt, e.le(e.izero(), k), e.lt(k, la), arr, k, a.T, e.add(sx("s_off", a.T), k), arr, k))
	e.assume("true", fmt.Sprintf("(forall ((%s %s)) (! (=> (and %s %s) (= (select %s %s) (select (s_arr %s) %s))) :pattern ((select %s %s))))",
		k, srt, e.le(la, k), e.lt(k, e.add(la, lb)), arr, k, b.T, e.add(sx("s_off", b.T), e.sub(k, la)), arr, k))
	res := sx("mk-str", arr, e.izero(), e.add(la, lb))
	if e.c != nil && e.c.MapLoop && !e.bv {
		// string identities (map keys): the identity of a concatenation is a function of the identities of its parts,
		// injective in the suffix for a fixed prefix
		if !e.declared["sidcat"] {
			e.declareFun("sidcat", []string{"Int", "Int"}, "Int")
			e.axioms = append(e.axioms, "(forall ((x Int) (y Int) (z Int)) (! (=> (= (sidcat x y) (sidcat x z)) (= y z)) :pattern ((sidcat x y) (sidcat x z))))")
		}
		e.assume("true", eq(sx("sid", res), sx("sidcat", sx("sid", a.T), sx("sid", b.T))))
	}
	return Value{res, t}
}

func (e *Engine) mkStrLit(s string) string {
	t := e.strLit(s)
	strLits[t] = s
	return t
}
