package main

import (
	"fmt"
	"go/ast"
	"go/types"
)

var iterCbKey = &synth{"iter:lastcb"}

// iteratorCall models a call x.M(cb) of an interface method documented to call cb zero or more times and to stop
// as soon as cb returns a non-nil error (for example native.ImportablePackage.LookupFunc). The `iter M` block of the
// contract supplies the invariant of this implicit loop; lastcb() is the result of the latest callback call of the
// current run (nil before the first one). The callback is the closure bound to the argument; its body is executed
// symbolically for arbitrary arguments from an arbitrary state satisfying the invariant.
func (e *Engine) iteratorCall(c *ast.CallExpr, name string, ls *LoopSpec, lit *ast.FuncLit, sig *types.Signature, st *State) []Value {
	e.stubsUsed["iterator method "+name+": calls its callback zero or more times with arbitrary arguments and never again after the callback returned a non-nil error; no other effect on tracked memory"] = true
	errT := types.Universe.Lookup("error").Type()
	ord := 1000 + e.callSite("iter:"+name)
	st.vars[iterCbKey] = e.zero(errT)
	e.loopEntry = append(e.loopEntry, st.clone())
	defer func() { e.loopEntry = e.loopEntry[:len(e.loopEntry)-1] }()
	e.checkInvariants(st, ls, ord, "inv-init", c.Pos())
	m := e.modifiedIn(lit.Body)
	head := st.clone()
	e.havocLoop(head, m, nil)
	head.vars[iterCbKey] = e.havocValue("lastcb", errT)
	e.assumeInvariants(head, ls)
	// one more callback call: only if every earlier call of this run returned nil
	body := head.clone()
	body.pc = and(body.pc, e.isNil(head.vars[iterCbKey]))
	var args []Value
	for _, f := range lit.Type.Params.List {
		t := e.pk.Info.TypeOf(f.Type)
		n := len(f.Names)
		if n == 0 {
			n = 1
		}
		for i := 0; i < n; i++ {
			v := e.havocValue("cbarg", t)
			e.refBound(body, v)
			args = append(args, v)
		}
	}
	res := e.inlineClosure(c, lit, args, body)
	if body.pc != "false" {
		if len(res) > 0 {
			body.vars[iterCbKey] = res[0]
		}
		e.checkInvariants(body, ls, ord, "inv-pres", c.Pos())
		e.canary(body, fmt.Sprintf("iter-%s-end", name), c.Pos())
	}
	// the method returns from some state satisfying the invariant (after zero or more calls)
	*st = *head
	return e.havocResults(st, sig, "iter_"+name)
}
