package main

import (
	"fmt"
	"go/ast"
	"go/token"
	"go/types"
	"path/filepath"
	"sort"
	"strings"
)

// Frame units (C21). A data-structure invariant of the form "field f of struct T is set when the value is built and
// never changes afterwards" is a frame condition on every function of the package: none of them assigns T.f.
//
//	//@ frame T.f
//	//@   props Cxx
//	//@   opt allow FUNC: STMT     (optional: one statement, given by its source text, that may assign the field)
//
// T is an unexported struct of the package, so only the package's own code can name the field; the unit walks every
// function body of the package (test and contract files excluded) and emits one obligation per write: an assignment
// or inc/dec whose target is the field (through any selector path), and any `&x.f` (which would let the field be
// written through a pointer the walk cannot follow). Composite literals that build a T are initialisation, not
// writes. The obligations are decided syntactically (back end "syntactic"): an allowed write or no write discharges,
// any other write fails with the function and line in its name. This is the same write-set analysis the executor
// uses for its frame rule at calls and loops, applied to one field over the whole package.
func (e *Engine) runFrame(pk *Pkg, c *Contract) {
	tname, fname, ok := strings.Cut(strings.TrimSpace(c.Frame), ".")
	if !ok {
		panic(unsupportedErr{"frame unit needs T.f"})
	}
	obj := pk.Types.Scope().Lookup(tname)
	if obj == nil {
		panic(unsupportedErr{"frame unit: no type " + tname})
	}
	st, ok := obj.Type().Underlying().(*types.Struct)
	if !ok {
		panic(unsupportedErr{"frame unit: " + tname + " is not a struct"})
	}
	var field *types.Var
	for i := 0; i < st.NumFields(); i++ {
		if st.Field(i).Name() == fname {
			field = st.Field(i)
		}
	}
	if field == nil {
		panic(unsupportedErr{"frame unit: no field " + fname + " in " + tname})
	}
	allowFn, allowStmt := "", ""
	if a := c.Opts["allow"]; a != "" {
		allowFn, allowStmt, _ = strings.Cut(a, ":")
		allowFn, allowStmt = strings.TrimSpace(allowFn), strings.TrimSpace(allowStmt)
	}
	isField := func(x ast.Expr) bool {
		sel, ok := unparen(x).(*ast.SelectorExpr)
		if !ok {
			return false
		}
		if s := pk.Info.Selections[sel]; s != nil {
			return s.Obj() == types.Object(field)
		}
		return false
	}
	type write struct {
		fn   string
		pos  token.Pos
		what string
		ok   bool
	}
	var writes []write
	nfuncs := 0
	var names []string
	for n := range pk.FuncDecls {
		names = append(names, n)
	}
	sort.Strings(names)
	for _, name := range names {
		fd := pk.FuncDecls[name]
		file := filepath.Base(pk.Fset.Position(fd.Pos()).Filename)
		if fd.Body == nil || strings.HasSuffix(file, "_test.go") || strings.HasSuffix(file, "_verif.go") {
			continue
		}
		nfuncs++
		ast.Inspect(fd.Body, func(n ast.Node) bool {
			switch x := n.(type) {
			case *ast.AssignStmt:
				for _, l := range x.Lhs {
					if isField(l) {
						txt := exprStr(l) + " " + x.Tok.String() + " " + exprStr(x.Rhs[0])
						allowed := name == allowFn && len(x.Lhs) == 1 && len(x.Rhs) == 1 && txt == allowStmt
						writes = append(writes, write{name, x.Pos(), txt, allowed})
					}
				}
			case *ast.IncDecStmt:
				if isField(x.X) {
					writes = append(writes, write{name, x.Pos(), exprStr(x.X) + x.Tok.String(), false})
				}
			case *ast.UnaryExpr:
				if x.Op == token.AND && isField(x.X) {
					writes = append(writes, write{name, x.Pos(), "&" + exprStr(x.X) + " (address taken)", false})
				}
			case *ast.RangeStmt:
				for _, l := range []ast.Expr{x.Key, x.Value} {
					if l != nil && x.Tok == token.ASSIGN && isField(l) {
						writes = append(writes, write{name, x.Pos(), "range assignment to " + exprStr(l), false})
					}
				}
			}
			return true
		})
	}
	base := State{pc: "true"}
	e.obligeNamed(&base, "walked", "frame", "true", obj.Pos(),
		fmt.Sprintf("every function body of the package was walked for writes to %s.%s (%d functions)", tname, fname, nfuncs), "")
	seen := map[string]int{}
	for _, w := range writes {
		goal := "false"
		desc := fmt.Sprintf("%s writes %s.%s (%s): the field must keep the value it was built with", w.fn, tname, fname, w.what)
		if w.ok {
			goal = "true"
			desc = fmt.Sprintf("%s: `%s` is the one write the contract allows", w.fn, w.what)
		}
		k := "write:" + w.fn
		seen[k]++
		if seen[k] > 1 {
			k = fmt.Sprintf("%s~%d", k, seen[k]-1)
		}
		e.obligeNamed(&base, k, "frame", goal, w.pos, desc, "")
	}
	if allowStmt != "" {
		found := false
		for _, w := range writes {
			found = found || w.ok
		}
		if !found {
			e.notes = append(e.notes, "the allowed write `"+allowStmt+"` in "+allowFn+" no longer exists")
		}
	}
}
