module govc

go 1.25.0

require golang.org/x/tools v0.43.0

require (
	golang.org/x/mod v0.34.0 // indirect
	golang.org/x/sync v0.20.0 // indirect
)
