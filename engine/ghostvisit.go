package main

import "fmt"

// Ghost-visit log (C28, Walk). In a unit with `opt ghostvisit F`, every direct call F(..., x) made by the function
// under verification records x: GH_visited (a set of interface values) gains x and GH_nvisits is incremented, unless
// x is the nil interface. The log is activation-local ghost state: no call can change it, loops that contain such
// calls havoc it at the head. Contracts read it with visited(x) and nvisits().
const ghVisited = "GH_visited"
const ghCount = "GH_nvisits"
const ghVisitedSort = "(Array Ifc Bool)"

func (e *Engine) ghostVisit(st *State, x Value) {
	V := e.heapGet(st, ghVisited, ghVisitedSort)
	N := e.heapGet(st, ghCount, e.isort())
	isNil := e.isNil(x)
	e.heapSet(st, ghVisited, ghVisitedSort, ite(isNil, V, sx("store", V, x.T, "true")))
	e.heapSet(st, ghCount, e.isort(), e.add(N, ite(isNil, e.izero(), e.ilit("1"))))
}

// ghostInit: at the start of a ghost-visit unit nothing has been visited.
func (e *Engine) ghostInit(st *State) {
	V := e.heapGet(st, ghVisited, ghVisitedSort)
	N := e.heapGet(st, ghCount, e.isort())
	e.assume("true", eq(V, "((as const (Array Ifc Bool)) false)"))
	e.assume("true", eq(N, e.izero()))
}

// ghostMonotone: the visited set only grows, so at a loop head (where the log has been havocked) everything that was
// visited when the loop was entered is still visited, and the count has not decreased. Sound because the only
// operation on the set is insertion.
func (e *Engine) ghostMonotone(entry, head *State, m *modset) {
	if e.c == nil || e.c.Opts["ghostvisit"] == "" || !m.heaps[ghVisited] || e.spec > 0 {
		return
	}
	V0 := e.heapGet(entry, ghVisited, ghVisitedSort)
	V := e.heapGet(head, ghVisited, ghVisitedSort)
	N0 := e.heapGet(entry, ghCount, e.isort())
	N := e.heapGet(head, ghCount, e.isort())
	e.assume(head.pc, fmt.Sprintf("(forall ((y!g Ifc)) (! (=> (select %s y!g) (select %s y!g)) :pattern ((select %s y!g))))", V0, V, V))
	e.assume(head.pc, e.le(N0, N))
}
