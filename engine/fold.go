package main

import (
	"fmt"
	"go/ast"
	"go/types"
	"strings"
)

// Folds (DESIGN 2.4). A directive in a contract file
//
//	//@ fold NAME piece PIECE        NAME(s string, lo, hi int) bseq ; PIECE(s string, k int) string
//	//@ sum  NAME term  TERM [bounds LO HI]   NAME(s string, lo, hi int) int  ; TERM(s string, k int) int
//
// declares NAME as the fold, over the index range [lo,hi) of s, of a per-position function in a monoid: byte sequences
// under concatenation (a piece that is the empty string stands for "the byte itself, unchanged"), or integers under +.
// The Go functions NAME and PIECE/TERM are ordinary executable code in the contract file; the verifier replaces calls
// to NAME by an uninterpreted function with the inductive consequences of its recursive definition as axioms
// (empty range, unit range, split at a hinted index), each with an explicit E-matching pattern.

type FoldDecl struct {
	Name  string
	Kind  string // fold | sum
	Piece string
	Lo    string
	Hi    string
	Drop  bool // the piece "\x00" stands for "nothing"
}

func parseFoldDirective(kw, rest string) (*FoldDecl, error) {
	f := strings.Fields(rest)
	want := "piece"
	if kw == "sum" {
		want = "term"
	}
	if len(f) < 3 || f[1] != want {
		return nil, fmt.Errorf("bad %s directive %q", kw, rest)
	}
	d := &FoldDecl{Name: f[0], Kind: kw, Piece: f[2]}
	if len(f) == 6 && f[3] == "bounds" {
		d.Lo, d.Hi = f[4], f[5]
	}
	if len(f) == 4 && f[3] == "drop" {
		d.Drop = true
	}
	return d, nil
}

func (e *Engine) foldFor(fn *types.Func) (*FoldDecl, *Pkg) {
	if fn.Pkg() == nil {
		return nil, nil
	}
	pk := e.w.Pkgs[fn.Pkg().Path()]
	if pk == nil || pk.Folds == nil {
		return nil, nil
	}
	if sig, ok := fn.Type().(*types.Signature); ok && sig.Recv() != nil {
		return nil, nil
	}
	return pk.Folds[fn.Name()], pk
}

// foldCall returns the term for NAME(s, lo, hi), declaring the fold's theory on first use.
func (e *Engine) foldCall(d *FoldDecl, pk *Pkg, fn *types.Func, args []Value, rt types.Type) Value {
	if e.bv {
		panic(unsupportedErr{"folds are not available in bv mode"})
	}
	sym := "F_" + mangle(pkgShort(pk.Path)+"_"+d.Name)
	if !e.declared[sym] {
		e.declared[sym] = true
		e.declareWriterTheory()
		decl := pk.FuncDecls[d.Piece]
		if decl == nil {
			panic(unsupportedErr{fmt.Sprintf("fold %s: no function %s", d.Name, d.Piece)})
		}
		// evaluate the piece/term function on bound variables
		savedPk := e.pk
		e.pk = pk
		st := &State{pc: "true", vars: map[any]Value{}, heaps: map[string]string{}, top: "0"}
		pfn, _ := pk.Types.Scope().Lookup(d.Piece).(*types.Func)
		if pfn == nil {
			panic(unsupportedErr{fmt.Sprintf("fold %s: %s is not a function", d.Name, d.Piece)})
		}
		psig := pfn.Type().(*types.Signature)
		e.spec++
		e.bound++
		pargs := []Value{{"s!b", types.Typ[types.String]}, {"k!b", types.Typ[types.Int]}}
		// extra parameters of the piece (flags, modes) are carried unchanged through the fold
		xb, xa, xs := "", "", ""
		for i := 2; i < psig.Params().Len(); i++ {
			pt := psig.Params().At(i).Type()
			nm := fmt.Sprintf("x%d!b", i)
			if e.sortOf(pt) == "Bool" {
				// Boolean parameters travel as 0/1 integers: E-matching does not see Bool-sorted arguments
				pargs = append(pargs, Value{sx("=", nm, "1"), pt})
				xb += fmt.Sprintf(" (%s Int)", nm)
				xa += " " + nm
				xs += " Int"
				continue
			}
			pargs = append(pargs, Value{nm, pt})
			xb += fmt.Sprintf(" (%s %s)", nm, e.sortOf(pt))
			xa += " " + nm
			xs += " " + e.sortOf(pt)
		}
		if len(args) != 1+psig.Params().Len() {
			panic(unsupportedErr{fmt.Sprintf("fold %s: want %d arguments", d.Name, 1+psig.Params().Len())})
		}
		res := e.inlineCall(&ast.CallExpr{}, pfn, decl, pk, psig, nil, pargs, st)
		e.bound--
		e.spec--
		e.pk = savedPk
		if len(res) != 1 {
			panic(unsupportedErr{"fold piece must return one value"})
		}
		r := res[0].T
		switch d.Kind {
		case "fold":
			// piece "" = the byte itself; otherwise the piece's bytes; with `drop`, the piece "\x00" = nothing
			whole := "(bseq (s_arr pc!p) (s_off pc!p) (+ (s_off pc!p) (s_len pc!p)))"
			if d.Drop {
				whole = fmt.Sprintf("(ite (and (= (s_len pc!p) 1) (= (select (s_arr pc!p) (s_off pc!p)) 0)) eps %s)", whole)
			}
			p := fmt.Sprintf("(let ((pc!p %s)) (ite (= (s_len pc!p) 0) (bseq (s_arr s!b) (+ (s_off s!b) k!b) (+ (s_off s!b) k!b 1)) %s))", r, whole)
			e.decls = append(e.decls,
				fmt.Sprintf("(declare-fun %s (Str Int Int%s) BSeq)", sym, xs),
				fmt.Sprintf("(define-fun P%s ((s!b Str) (k!b Int)%s) BSeq %s)", sym, xb, p),
				fmt.Sprintf("(assert (forall ((s!b Str) (i Int)%s) (! (= (%s s!b i i%s) eps) :pattern ((%s s!b i i%s)))))", xb, sym, xa, sym, xa),
				fmt.Sprintf("(assert (forall ((s!b Str) (i Int) (j Int)%s) (! (=> (and (<= 0 i) (< i (s_len s!b)) (= j (+ i 1))) (= (%s s!b i j%s) (P%s s!b i%s))) :pattern ((%s s!b i j%s)))))", xb, sym, xa, sym, xa, sym, xa),
				fmt.Sprintf("(assert (forall ((s!b Str) (i Int) (j Int) (k Int)%s) (! (=> (and (<= i j) (<= j k) (fsplit i j k)) (= (%s s!b i k%s) (cat (%s s!b i j%s) (%s s!b j k%s)))) :pattern ((%s s!b i k%s) (fsplit i j k)))))", xb, sym, xa, sym, xa, sym, xa, sym, xa))
		case "sum":
			e.decls = append(e.decls,
				fmt.Sprintf("(declare-fun %s (Str Int Int%s) Int)", sym, xs),
				fmt.Sprintf("(define-fun P%s ((s!b Str) (k!b Int)%s) Int %s)", sym, xb, r),
				fmt.Sprintf("(assert (forall ((s!b Str) (i Int)%s) (! (= (%s s!b i i%s) 0) :pattern ((%s s!b i i%s)))))", xb, sym, xa, sym, xa),
				fmt.Sprintf("(assert (forall ((s!b Str) (i Int) (j Int)%s) (! (=> (and (<= 0 i) (< i (s_len s!b)) (= j (+ i 1))) (= (%s s!b i j%s) (P%s s!b i%s))) :pattern ((%s s!b i j%s)))))", xb, sym, xa, sym, xa, sym, xa),
				fmt.Sprintf("(assert (forall ((s!b Str) (i Int) (j Int) (k Int)%s) (! (=> (and (<= i j) (<= j k) (fsplit i j k)) (= (%s s!b i k%s) (+ (%s s!b i j%s) (%s s!b j k%s)))) :pattern ((%s s!b i k%s) (fsplit i j k)))))", xb, sym, xa, sym, xa, sym, xa, sym, xa))
			if d.Lo != "" {
				e.decls = append(e.decls,
					fmt.Sprintf("(assert (forall ((s!b Str) (i Int) (j Int)%s) (! (=> (and (<= 0 i) (<= i j) (<= j (s_len s!b))) (and (<= (* %s (- j i)) (%s s!b i j%s)) (<= (%s s!b i j%s) (* %s (- j i))))) :pattern ((%s s!b i j%s)))))", xb, bigStr(d.Lo), sym, xa, sym, xa, bigStr(d.Hi), sym, xa))
			}
		}
		e.stubsUsed[fmt.Sprintf("fold %s over %s: axioms empty/unit/split (inductive consequences of its recursive definition; DESIGN 2.4)", d.Name, d.Piece)] = true
	}
	ts := make([]string, len(args))
	for i, a := range args {
		ts[i] = a.T
		if i >= 3 && e.sortOf(a.Typ) == "Bool" {
			ts[i] = sx("ite", a.T, "1", "0")
		}
	}
	return Value{sx(sym, ts...), rt}
}

// isBseqType reports whether t is the abstract byte-sequence type `bseq` declared in a contract file.
func (e *Engine) isBseqType(t types.Type) bool {
	n, ok := types.Unalias(t).(*types.Named)
	if !ok || n.Obj().Name() != "bseq" || n.Obj().Pkg() == nil {
		return false
	}
	pk := e.w.Pkgs[n.Obj().Pkg().Path()]
	if pk == nil {
		return false
	}
	return strings.HasSuffix(pk.Fset.Position(n.Obj().Pos()).Filename, "_verif.go")
}

// hints asserts fhint(t) for every hint expression of the clause list (trigger seeds for the split axioms).
func (e *Engine) hints(st *State, hs []*Clause) {
	if st == nil || len(hs) == 0 {
		return
	}
	e.declareWriterTheory()
	guard := st.pc
	for _, h := range hs {
		e.spec++
		v := e.ev(h.Expr, st)
		e.spec--
		if h.Kind == "when" {
			guard = and(st.pc, v.T)
			continue
		}
		if e.sortOf(v.Typ) == "Bool" {
			// only instances of valid laws may be assumed: fsplit/bsplit seeds, or a call of a lemma function (a unit
			// with a contract of its own, whose postconditions the call has already made available)
			name := ""
			if call, ok := unparen(h.Expr).(*ast.CallExpr); ok {
				if id, ok := unparen(call.Fun).(*ast.Ident); ok {
					name = id.Name
				}
			}
			switch {
			case name == "fsplit" || name == "bsplit":
				e.assume(guard, v.T)
			case strings.HasPrefix(name, "lemma"):
				// nothing to add: evaluating the call applied the lemma's contract
			default:
				panic(unsupportedErr{fmt.Sprintf("hint %q: a Boolean hint must be a split seed or a lemma call", h.Text)})
			}
		} else if e.sortOf(v.Typ) == "BSeq" {
			// a byte-sequence term the proof needs to exist (it seeds the associativity and merge laws)
			e.assume(guard, sx("fknown", v.T))
		} else {
			e.assume(guard, sx("fhint", v.T))
		}
		guard = st.pc
	}
}
