package main

import (
	"fmt"
	"go/ast"
	"go/types"
	"strings"
)

// Folds (DESIGN 2.4). A directive in a contract file
//
//	//@ fold NAME piece PIECE        NAME(s string, lo, hi int) bseq ; PIECE(s string, k int) string
//	//@ sum  NAME term  TERM [bounds LO HI]   NAME(s string, lo, hi int) int  ; TERM(s string, k int) int
//
// declares NAME as the fold, over the index range [lo,hi) of s, of a per-position function in a monoid: byte sequences
// under concatenation (a piece that is the empty string stands for "the byte itself, unchanged"), or integers under +.
// The Go functions NAME and PIECE/TERM are ordinary executable code in the contract file; the verifier replaces calls
// to NAME by an uninterpreted function with the inductive consequences of its recursive definition as axioms
// (empty range, unit range, split at a hinted index), each with an explicit E-matching pattern.

type FoldDecl struct {
	Name  string
	Kind  string // fold | sum
	Piece string
	Lo    string
	Hi    string
}

func parseFoldDirective(kw, rest string) (*FoldDecl, error) {
	f := strings.Fields(rest)
	want := "piece"
	if kw == "sum" {
		want = "term"
	}
	if len(f) < 3 || f[1] != want {
		return nil, fmt.Errorf("bad %s directive %q", kw, rest)
	}
	d := &FoldDecl{Name: f[0], Kind: kw, Piece: f[2]}
	if len(f) == 6 && f[3] == "bounds" {
		d.Lo, d.Hi = f[4], f[5]
	}
	return d, nil
}

func (e *Engine) foldFor(fn *types.Func) (*FoldDecl, *Pkg) {
	if fn.Pkg() == nil {
		return nil, nil
	}
	pk := e.w.Pkgs[fn.Pkg().Path()]
	if pk == nil || pk.Folds == nil {
		return nil, nil
	}
	if sig, ok := fn.Type().(*types.Signature); ok && sig.Recv() != nil {
		return nil, nil
	}
	return pk.Folds[fn.Name()], pk
}

// foldCall returns the term for NAME(s, lo, hi), declaring the fold's theory on first use.
func (e *Engine) foldCall(d *FoldDecl, pk *Pkg, fn *types.Func, args []Value, rt types.Type) Value {
	if e.bv {
		panic(unsupportedErr{"folds are not available in bv mode"})
	}
	sym := "F_" + mangle(pkgShort(pk.Path)+"_"+d.Name)
	if !e.declared[sym] {
		e.declared[sym] = true
		e.declareWriterTheory()
		decl := pk.FuncDecls[d.Piece]
		if decl == nil {
			panic(unsupportedErr{fmt.Sprintf("fold %s: no function %s", d.Name, d.Piece)})
		}
		// evaluate the piece/term function on bound variables
		savedPk := e.pk
		e.pk = pk
		st := &State{pc: "true", vars: map[any]Value{}, heaps: map[string]string{}, top: "0"}
		pfn, _ := pk.Types.Scope().Lookup(d.Piece).(*types.Func)
		if pfn == nil {
			panic(unsupportedErr{fmt.Sprintf("fold %s: %s is not a function", d.Name, d.Piece)})
		}
		psig := pfn.Type().(*types.Signature)
		e.spec++
		e.bound++
		res := e.inlineCall(&ast.CallExpr{}, pfn, decl, pk, psig, nil, []Value{{"s!b", types.Typ[types.String]}, {"k!b", types.Typ[types.Int]}}, st)
		e.bound--
		e.spec--
		e.pk = savedPk
		if len(res) != 1 {
			panic(unsupportedErr{"fold piece must return one value"})
		}
		r := res[0].T
		switch d.Kind {
		case "fold":
			p := fmt.Sprintf("(let ((pc!p %s)) (ite (= (s_len pc!p) 0) (bseq (s_arr s!b) (+ (s_off s!b) k!b) (+ (s_off s!b) k!b 1)) (bseq (s_arr pc!p) (s_off pc!p) (+ (s_off pc!p) (s_len pc!p)))))", r)
			e.sortDecls = append(e.sortDecls,
				fmt.Sprintf("(declare-fun %s (Str Int Int) BSeq)", sym),
				fmt.Sprintf("(define-fun P%s ((s!b Str) (k!b Int)) BSeq %s)", sym, p),
				fmt.Sprintf("(define-fun Plain%s ((s!b Str) (k!b Int)) Bool (= (s_len %s) 0))", sym, r),
				fmt.Sprintf("(assert (forall ((s Str) (i Int)) (! (= (%s s i i) eps) :pattern ((%s s i i)))))", sym, sym),
				fmt.Sprintf("(assert (forall ((s Str) (i Int)) (! (=> (and (<= 0 i) (< i (s_len s))) (= (%s s i (+ i 1)) (P%s s i))) :pattern ((%s s i (+ i 1))))))", sym, sym, sym),
				fmt.Sprintf("(assert (forall ((s Str) (i Int) (j Int) (k Int)) (! (=> (and (<= i j) (<= j k) (fhint j)) (= (%s s i k) (cat (%s s i j) (%s s j k)))) :pattern ((%s s i k) (fhint j)))))", sym, sym, sym, sym))
		case "sum":
			e.sortDecls = append(e.sortDecls,
				fmt.Sprintf("(declare-fun %s (Str Int Int) Int)", sym),
				fmt.Sprintf("(define-fun P%s ((s!b Str) (k!b Int)) Int %s)", sym, r),
				fmt.Sprintf("(assert (forall ((s Str) (i Int)) (! (= (%s s i i) 0) :pattern ((%s s i i)))))", sym, sym),
				fmt.Sprintf("(assert (forall ((s Str) (i Int)) (! (=> (and (<= 0 i) (< i (s_len s))) (= (%s s i (+ i 1)) (P%s s i))) :pattern ((%s s i (+ i 1))))))", sym, sym, sym),
				fmt.Sprintf("(assert (forall ((s Str) (i Int) (j Int) (k Int)) (! (=> (and (<= i j) (<= j k) (fhint j)) (= (%s s i k) (+ (%s s i j) (%s s j k)))) :pattern ((%s s i k) (fhint j)))))", sym, sym, sym, sym))
			if d.Lo != "" {
				e.sortDecls = append(e.sortDecls,
					fmt.Sprintf("(assert (forall ((s Str) (i Int) (j Int)) (! (=> (and (<= 0 i) (<= i j) (<= j (s_len s))) (and (<= (* %s (- j i)) (%s s i j)) (<= (%s s i j) (* %s (- j i))))) :pattern ((%s s i j)))))", bigStr(d.Lo), sym, sym, bigStr(d.Hi), sym))
			}
		}
		e.stubsUsed[fmt.Sprintf("fold %s over %s: axioms empty/unit/split (inductive consequences of its recursive definition; DESIGN 2.4)", d.Name, d.Piece)] = true
	}
	return Value{sx(sym, args[0].T, args[1].T, args[2].T), rt}
}

// isBseqType reports whether t is the abstract byte-sequence type `bseq` declared in a contract file.
func (e *Engine) isBseqType(t types.Type) bool {
	n, ok := types.Unalias(t).(*types.Named)
	if !ok || n.Obj().Name() != "bseq" || n.Obj().Pkg() == nil {
		return false
	}
	pk := e.w.Pkgs[n.Obj().Pkg().Path()]
	if pk == nil {
		return false
	}
	return strings.HasSuffix(pk.Fset.Position(n.Obj().Pos()).Filename, "_verif.go")
}

// hints asserts fhint(t) for every hint expression of the clause list (trigger seeds for the split axioms).
func (e *Engine) hints(st *State, hs []*Clause) {
	if st == nil || len(hs) == 0 {
		return
	}
	e.declareWriterTheory()
	for _, h := range hs {
		e.spec++
		v := e.ev(h.Expr, st)
		e.spec--
		e.assume(st.pc, sx("fhint", v.T))
	}
}
