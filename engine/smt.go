package main

import (
	"bytes"
	"context"
	"fmt"
	"os"
	"os/exec"
	"path/filepath"
	"strings"
	"time"
)

// ---- term construction helpers (terms are SMT-LIB strings) ----

func sx(op string, args ...string) string {
	if len(args) == 0 {
		return op
	}
	return "(" + op + " " + strings.Join(args, " ") + ")"
}

func itoa(n int64) string {
	if n < 0 {
		return fmt.Sprintf("(- %d)", -n)
	}
	return fmt.Sprintf("%d", n)
}

func bigStr(s string) string { // decimal string possibly negative
	if strings.HasPrefix(s, "-") {
		return "(- " + s[1:] + ")"
	}
	return s
}

func and(ts ...string) string {
	var out []string
	for _, t := range ts {
		if t == "true" {
			continue
		}
		if t == "false" {
			return "false"
		}
		out = append(out, t)
	}
	switch len(out) {
	case 0:
		return "true"
	case 1:
		return out[0]
	}
	return sx("and", out...)
}

func or(ts ...string) string {
	var out []string
	for _, t := range ts {
		if t == "false" {
			continue
		}
		if t == "true" {
			return "true"
		}
		out = append(out, t)
	}
	switch len(out) {
	case 0:
		return "false"
	case 1:
		return out[0]
	}
	return sx("or", out...)
}

func not(t string) string {
	switch t {
	case "true":
		return "false"
	case "false":
		return "true"
	}
	if strings.HasPrefix(t, "(not ") && balanced(t[5:len(t)-1]) {
		return t[5 : len(t)-1]
	}
	return sx("not", t)
}

func balanced(s string) bool {
	d := 0
	for i := 0; i < len(s); i++ {
		switch s[i] {
		case '(':
			d++
		case ')':
			d--
			if d < 0 {
				return false
			}
		case '"':
			return false // be conservative
		}
		if d == 0 && s[i] == ' ' {
			return false
		}
	}
	return d == 0
}

func implies(a, b string) string {
	if a == "true" {
		return b
	}
	if b == "true" {
		return "true"
	}
	return sx("=>", a, b)
}

func eq(a, b string) string {
	if a == b {
		return "true"
	}
	return sx("=", a, b)
}

func ite(c, a, b string) string {
	if c == "true" {
		return a
	}
	if c == "false" {
		return b
	}
	if a == b {
		return a
	}
	return sx("ite", c, a, b)
}

// ---- preamble ----

const preambleInt = `(set-option :produce-models true)
(set-logic ALL)
(declare-datatypes ((Str 0)) (((mk-str (s_arr (Array Int Int)) (s_off Int) (s_len Int)))))
(declare-datatypes ((Slc 0)) (((mk-slc (l_ref Int) (l_off Int) (l_len Int) (l_cap Int)))))
(declare-datatypes ((Ifc 0)) (((mk-ifc (i_tid Int) (i_val Int)))))
(declare-sort Flt 0)
(define-fun tdiv ((a Int) (b Int)) Int (ite (>= a 0) (ite (> b 0) (div a b) (- (div a (- b)))) (ite (> b 0) (- (div (- a) b)) (div (- a) (- b)))))
(define-fun tmod ((a Int) (b Int)) Int (- a (* b (tdiv a b))))
(define-fun wrapu ((x Int) (m Int)) Int (mod x m))
(define-fun wraps ((x Int) (h Int)) Int (- (mod (+ x h) (* 2 h)) h))
(declare-fun sid (Str) Int)
(declare-fun bits_and (Int Int) Int)
(declare-fun bits_or (Int Int) Int)
(declare-fun bits_xor (Int Int) Int)
(declare-fun bits_shl (Int Int) Int)
(declare-fun bits_shr (Int Int) Int)
`

const streqDef = `(define-fun streq ((a Str) (b Str)) Bool (and (= (s_len a) (s_len b)) (forall ((k Int)) (=> (and (<= 0 k) (< k (s_len a))) (= (select (s_arr a) (+ (s_off a) k)) (select (s_arr b) (+ (s_off b) k)))))))
`

const maxLen = "1099511627776" // 2^40: assumed upper bound on any slice/string length (listed assumption)

// ---- solver runner ----

type solverResult struct {
	Solver string
	Status string // unsat, sat, unknown, timeout, error
	Ms     int64
	Output string
}

var solverBins = map[string][]string{
	"z3-new": {"z3-new", "-smt2"},
	"z3":     {"z3", "-smt2"},
	"cvc5":   {"cvc5", "--lang=smt2", "--incremental"},
}

func runSolver(name, file string, timeout time.Duration) solverResult {
	return runSolverCtx(context.Background(), name, file, timeout)
}

func runSolverCtx(parent context.Context, name, file string, timeout time.Duration) solverResult {
	args := append([]string{}, solverBins[name]...)
	switch name {
	case "z3", "z3-new":
		args = append(args, fmt.Sprintf("-T:%d", int(timeout.Seconds())+1), file)
	case "cvc5":
		args = append(args, fmt.Sprintf("--tlimit=%d", timeout.Milliseconds()), file)
	}
	ctx, cancel := context.WithTimeout(parent, timeout+2*time.Second)
	defer cancel()
	cmd := exec.CommandContext(ctx, args[0], args[1:]...)
	var out bytes.Buffer
	cmd.Stdout = &out
	cmd.Stderr = &out
	t0 := time.Now()
	_ = cmd.Run()
	ms := time.Since(t0).Milliseconds()
	o := out.String()
	first := strings.TrimSpace(strings.SplitN(o, "\n", 2)[0])
	st := "error"
	switch first {
	case "unsat", "sat", "unknown":
		st = first
	case "timeout":
		st = "timeout"
	default:
		if ctx.Err() != nil || strings.Contains(o, "timeout") || strings.Contains(o, "interrupted") {
			st = "timeout"
		}
	}
	if len(o) > 20000 {
		o = o[:20000]
	}
	return solverResult{Solver: name, Status: st, Ms: ms, Output: o}
}

// solve runs z3-new first; on unknown/timeout it tries the two other solvers.
// A "sat" from the first solver is final; an "unsat" from any solver discharges.
func solve(query string, dir, name string, timeout time.Duration, all bool) (solverResult, []solverResult) {
	_ = os.MkdirAll(dir, 0o755)
	file := filepath.Join(dir, sanitize(name)+".smt2")
	_ = os.WriteFile(file, []byte(query), 0o644)
	var tried []solverResult
	r := runSolver("z3-new", file, timeout)
	tried = append(tried, r)
	if r.Status == "unsat" && !all {
		return r, tried
	}
	if r.Status == "sat" {
		return r, tried
	}
	ch := make(chan solverResult, 2)
	ctx, cancel := context.WithCancel(context.Background())
	defer cancel()
	for _, s := range []string{"z3", "cvc5"} {
		s := s
		go func() {
			f := file
			if s == "cvc5" {
				f = strings.TrimSuffix(file, ".smt2") + ".cvc5.smt2"
				_ = os.WriteFile(f, []byte(cvc5ify(query)), 0o644)
			}
			ch <- runSolverCtx(ctx, s, f, timeout)
		}()
	}
	best := r
	for i := 0; i < 2; i++ {
		x := <-ch
		tried = append(tried, x)
		if x.Status == "unsat" && best.Status != "unsat" && best.Status != "sat" {
			best = x
			if !all {
				return best, tried // a definite answer: do not wait for the other solver (it is cancelled)
			}
		}
		if x.Status == "sat" && best.Status != "unsat" {
			best = x
			if !all {
				return best, tried
			}
		}
	}
	return best, tried
}

// solveAgain asks every solver at once, z3-new additionally under two other random seeds; the first definite answer wins.
func solveAgain(query string, dir, name string, timeout time.Duration) (solverResult, []solverResult) {
	_ = os.MkdirAll(dir, 0o755)
	base := filepath.Join(dir, sanitize(name)+".retry")
	type variant struct{ solver, file, text string }
	seeded := func(n int) string {
		return fmt.Sprintf("(set-option :smt.random_seed %d)\n(set-option :sat.random_seed %d)\n", n, n) + query
	}
	vs := []variant{
		{"z3-new", base + ".smt2", query},
		{"z3-new", base + ".s7.smt2", seeded(7)},
		{"z3-new", base + ".s23.smt2", seeded(23)},
		{"z3", base + ".old.smt2", query},
		{"cvc5", base + ".cvc5.smt2", cvc5ify(query)},
	}
	ch := make(chan solverResult, len(vs))
	ctx, cancel := context.WithCancel(context.Background())
	defer cancel()
	for _, v := range vs {
		v := v
		_ = os.WriteFile(v.file, []byte(v.text), 0o644)
		go func() { ch <- runSolverCtx(ctx, v.solver, v.file, timeout) }()
	}
	var tried []solverResult
	best := solverResult{Status: "timeout"}
	for range vs {
		x := <-ch
		tried = append(tried, x)
		if x.Status == "unsat" || x.Status == "sat" {
			return x, tried
		}
		best = x
	}
	return best, tried
}

func cvc5ify(q string) string {
	// cvc5 rejects z3-specific options; drop pattern annotations it dislikes nothing else.
	q = strings.ReplaceAll(q, "(set-option :smt.mbqi false)\n", "")
	return q
}

func sanitize(s string) string {
	var b strings.Builder
	for _, c := range s {
		switch {
		case c >= 'a' && c <= 'z', c >= 'A' && c <= 'Z', c >= '0' && c <= '9', c == '.', c == '-', c == '_', c == '#':
			b.WriteRune(c)
		default:
			b.WriteByte('_')
		}
	}
	return b.String()
}
