package main

import (
	"fmt"
	"go/ast"
	"go/parser"
	"go/token"
	"go/types"
	"os"
	"path/filepath"
	"regexp"
	"sort"
	"strconv"
	"strings"

	"golang.org/x/tools/go/packages"
)

// ---------------- contracts ----------------

type Clause struct {
	Kind string // requires, ensures, invariant, decreases, assume
	Prop string // optional property tag
	Text string
	Expr ast.Expr
	Line int
}

type LoopSpec struct {
	Ordinal    int
	Invariants []*Clause
	Decreases  *Clause
	Modifies   []string
	NoTerm     bool
	Hints      []*Clause
	CaseDims   [][]*Clause
	caseTerms  [][]string // evaluated at the start of the body of the current execution
}

// IdxAssert: see the idxassert directive.
type IdxAssert struct{ Base, Lo, Hi, Prop string }

type Contract struct {
	Name     string // unit name as written
	Pkg      string
	Props    []string
	Mode     string
	Requires []*Clause
	Ensures  []*Clause
	Assumes  []*Clause
	Loops    map[int]*LoopSpec
	Modifies []string // heap names the function may modify; nil = unspecified (checked: nothing), "all"
	ModSet   bool
	Iters    map[string]*LoopSpec
	Hints    []*Clause
	Panics   bool // explicit panics allowed
	PanicPost []*Clause
	Pure     bool
	NoInline bool
	Trusted  bool // contract assumed, body not verified (listed)
	Strict   bool // narrowing conversions must be lossless
	Opts     map[string]string
	File     string
	Line     int
	// resolved
	Decl    *ast.FuncDecl
	Clause  *ast.CaseClause // for clause units
	IdxAsserts []*IdxAssert // `idxassert BASE LO HI`
	Claims     []*Clause    // `claim[Cxx] TEXT`
	Lit     *ast.FuncLit    // function-literal unit (FUNC/case lit N)
	MapLoop bool            // map-range unit (maprange.go)
	Frame   string          // frame unit T.f (frame.go)
	ResVars []string
	PreDecls []ast.Stmt
	LitAsserts []*LitAssert
}

// LitAssert (`litassert TYPE N EXPR`): an assertion on the N-th composite literal of type TYPE (as written) in the
// function, evaluated where the literal is built; EXPR names the literal's value as `lit` and may use everything in
// scope at that statement.
type LitAssert struct {
	Type   string
	Ord    int
	Clause *Clause
	Node   ast.Expr // *ast.CompositeLit, or *ast.CallExpr for a call assertion
	LitID  *ast.Ident
	Call   bool // `callassert FUN N EXPR`: assertion evaluated right before the N-th call written FUN(...)
}

func (c *Contract) primary() string {
	if len(c.Props) > 0 {
		return c.Props[0]
	}
	return ""
}

var implRe = regexp.MustCompile(`==>`)

// rewriteImp turns "A ==> B" (lowest precedence, right associative) into imp(A, B),
// recursively inside parentheses and braces.
func rewriteImp(s string) string {
	if !strings.Contains(s, "==>") {
		return s
	}
	// first rewrite nested groups
	var out strings.Builder
	i := 0
	for i < len(s) {
		c := s[i]
		switch c {
		case '"', '`', '\'':
			j := skipLit(s, i)
			out.WriteString(s[i:j])
			i = j
			continue
		case '(', '{', '[':
			j := matchClose(s, i)
			if j < 0 {
				out.WriteString(s[i:])
				i = len(s)
				continue
			}
			inner := s[i+1 : j]
			if c == '{' {
				t := strings.TrimSpace(inner)
				if strings.HasPrefix(t, "return ") {
					inner = " return " + rewriteImp(strings.TrimPrefix(t, "return ")) + " "
				} else {
					inner = rewriteImp(inner)
				}
			} else if c == '(' {
				inner = rewriteImpArgs(inner)
			} else {
				inner = rewriteImp(inner)
			}
			out.WriteByte(c)
			out.WriteString(inner)
			out.WriteByte(s[j])
			i = j + 1
			continue
		}
		out.WriteByte(c)
		i++
	}
	t := out.String()
	// now split at top-level ==>
	idx := topLevelIndex(t, "==>")
	if idx < 0 {
		return t
	}
	return "imp(" + strings.TrimSpace(t[:idx]) + ", " + rewriteImp(strings.TrimSpace(t[idx+3:])) + ")"
}

// rewriteImpArgs handles a parenthesised group that may be an argument list.
func rewriteImpArgs(s string) string {
	parts := splitTop(s, ',')
	for i, p := range parts {
		parts[i] = rewriteImp(p)
	}
	return strings.Join(parts, ",")
}

func splitTop(s string, sep byte) []string {
	var parts []string
	d := 0
	start := 0
	for i := 0; i < len(s); i++ {
		switch s[i] {
		case '"', '`', '\'':
			i = skipLit(s, i) - 1
		case '(', '{', '[':
			d++
		case ')', '}', ']':
			d--
		default:
			if s[i] == sep && d == 0 {
				parts = append(parts, s[start:i])
				start = i + 1
			}
		}
	}
	parts = append(parts, s[start:])
	return parts
}

func topLevelIndex(s, pat string) int {
	d := 0
	for i := 0; i < len(s); i++ {
		switch s[i] {
		case '"', '`', '\'':
			i = skipLit(s, i) - 1
		case '(', '{', '[':
			d++
		case ')', '}', ']':
			d--
		default:
			if d == 0 && strings.HasPrefix(s[i:], pat) {
				return i
			}
		}
	}
	return -1
}

func skipLit(s string, i int) int {
	q := s[i]
	j := i + 1
	for j < len(s) {
		if s[j] == '\\' && q != '`' {
			j += 2
			continue
		}
		if s[j] == q {
			return j + 1
		}
		j++
	}
	return len(s)
}

func matchClose(s string, i int) int {
	d := 0
	for j := i; j < len(s); j++ {
		switch s[j] {
		case '"', '`', '\'':
			j = skipLit(s, j) - 1
		case '(', '{', '[':
			d++
		case ')', '}', ']':
			d--
			if d == 0 {
				return j
			}
		}
	}
	return -1
}

var tagRe = regexp.MustCompile(`^(\w+)\[([A-Z]\d+)\]$`)

// parseContracts reads the //@ blocks of a contract file.
// parsedFolds collects the fold/sum directives per package path while contract files are read.
var parsedFolds = map[string][]*FoldDecl{}

func parseContracts(file string, pkgPath string) ([]*Contract, error) {
	data, err := os.ReadFile(file)
	if err != nil {
		return nil, err
	}
	return parseContractsData(data, file, pkgPath)
}

func parseContractsData(data []byte, file string, pkgPath string) ([]*Contract, error) {
	var out []*Contract
	var cur *Contract
	var loop *LoopSpec
	lines := strings.Split(string(data), "\n")
	for ln := 0; ln < len(lines); ln++ {
		raw := strings.TrimSpace(lines[ln])
		if !strings.HasPrefix(raw, "//@") {
			continue
		}
		txt := strings.TrimSpace(strings.TrimPrefix(raw, "//@"))
		for strings.HasSuffix(txt, "\\") && ln+1 < len(lines) {
			ln++
			nx := strings.TrimSpace(lines[ln])
			nx = strings.TrimSpace(strings.TrimPrefix(nx, "//@"))
			txt = strings.TrimSuffix(txt, "\\") + " " + nx
		}
		if txt == "" {
			continue
		}
		// strip trailing "// comment" that is outside strings
		if k := topLevelIndex(txt, " // "); k >= 0 {
			txt = strings.TrimSpace(txt[:k])
		}
		kw, rest, _ := strings.Cut(txt, " ")
		rest = strings.TrimSpace(rest)
		prop := ""
		if m := tagRe.FindStringSubmatch(kw); m != nil {
			kw, prop = m[1], m[2]
		}
		mk := func(kind string) *Clause {
			return &Clause{Kind: kind, Prop: prop, Text: rest, Line: ln + 1}
		}
		switch kw {
		case "func", "clause":
			cur = &Contract{Name: rest, Pkg: pkgPath, Loops: map[int]*LoopSpec{}, File: file, Line: ln + 1, Mode: "int", Opts: map[string]string{}}
			loop = nil
			out = append(out, cur)
		case "maploop":
			// `maploop FUNC N`: order-insensitivity unit for the N-th map-range loop of FUNC (maprange.go)
			f := strings.Fields(rest)
			if len(f) != 2 {
				return nil, fmt.Errorf("%s:%d: maploop FUNC N", file, ln+1)
			}
			cur = &Contract{Name: f[0] + "/maploop " + f[1], Pkg: pkgPath, Loops: map[int]*LoopSpec{}, File: file, Line: ln + 1, Mode: "int", Opts: map[string]string{}, MapLoop: true}
			loop = nil
			out = append(out, cur)
		case "frame":
			// `frame T.f`: no function of the package assigns field f of struct T (frame.go)
			cur = &Contract{Name: "frame " + rest, Pkg: pkgPath, Loops: map[int]*LoopSpec{}, File: file, Line: ln + 1, Mode: "int", Opts: map[string]string{}, Frame: rest}
			loop = nil
			out = append(out, cur)
		case "props":
			cur.Props = strings.Fields(rest)
		case "mode":
			cur.Mode = rest
		case "requires":
			cur.Requires = append(cur.Requires, mk("requires"))
		case "ensures":
			cur.Ensures = append(cur.Ensures, mk("ensures"))
		case "axiom":
			// a postcondition of a function declared `opt function yes` that callers may also use universally
			// quantified over the integer parameters (it is proved like any postcondition in the function's own unit)
			cur.Ensures = append(cur.Ensures, mk("axiom"))
		case "assume":
			cur.Assumes = append(cur.Assumes, mk("assume"))
		case "panics":
			cur.Panics = true
		case "panicpost":
			// condition on the value of every explicit panic of the function (refer to it as `panicval`)
			cur.Panics = true
			cur.PanicPost = append(cur.PanicPost, mk("panicpost"))
		case "pure":
			cur.Pure = true
		case "noinline":
			cur.NoInline = true
		case "trusted":
			cur.Trusted = true
		case "strict":
			cur.Strict = true
		case "opt":
			k, v, _ := strings.Cut(rest, " ")
			cur.Opts[k] = strings.TrimSpace(v)
		case "modifies":
			if loop != nil {
				loop.Modifies = append(loop.Modifies, strings.Fields(rest)...)
			} else {
				cur.Modifies = append(cur.Modifies, strings.Fields(rest)...)
				cur.ModSet = true
			}
		case "iter":
			// invariant of the implicit loop of an iterator method (x.M(callback)), keyed by method name
			loop = &LoopSpec{Ordinal: -1}
			if cur.Iters == nil {
				cur.Iters = map[string]*LoopSpec{}
			}
			cur.Iters[rest] = loop
		case "loop":
			n, err := strconv.Atoi(rest)
			if err != nil {
				return nil, fmt.Errorf("%s:%d: bad loop ordinal", file, ln+1)
			}
			loop = &LoopSpec{Ordinal: n}
			cur.Loops[n] = loop
		case "invariant":
			if loop == nil {
				return nil, fmt.Errorf("%s:%d: invariant outside loop", file, ln+1)
			}
			loop.Invariants = append(loop.Invariants, mk("invariant"))
		case "decreases":
			if loop == nil {
				return nil, fmt.Errorf("%s:%d: decreases outside loop", file, ln+1)
			}
			loop.Decreases = mk("decreases")
		case "noterm":
			loop.NoTerm = true
		case "fold", "sum":
			fd, err := parseFoldDirective(kw, rest)
			if err != nil {
				return nil, fmt.Errorf("%s:%d: %v", file, ln+1, err)
			}
			parsedFolds[pkgPath] = append(parsedFolds[pkgPath], fd)
		case "claim":
			cur.Claims = append(cur.Claims, &Clause{Kind: "claim", Prop: prop, Text: strings.ReplaceAll(rest, " ", ""), Line: ln + 1})
		case "idxassert":
			// `idxassert[Cxx] BASE LO HI`: every index expression BASE[i] of the unit has LO <= i < HI (integer constants).
			// Used where the bound that matters is that of the operand encoding (an index decoded from an 8-bit operand
			// is 0..255) rather than the length of a table whose well-formedness is not under contract.
			f := strings.Fields(rest)
			if len(f) != 3 {
				return nil, fmt.Errorf("%s:%d: idxassert BASE LO HI", file, ln+1)
			}
			cur.IdxAsserts = append(cur.IdxAsserts, &IdxAssert{Base: f[0], Lo: f[1], Hi: f[2], Prop: prop})
		case "litassert", "callassert":
			f := strings.SplitN(rest, " ", 3)
			if len(f) != 3 {
				return nil, fmt.Errorf("%s:%d: %s NAME N EXPR", file, ln+1, kw)
			}
			n, err := strconv.Atoi(f[1])
			if err != nil {
				return nil, fmt.Errorf("%s:%d: %s NAME N EXPR", file, ln+1, kw)
			}
			cur.LitAsserts = append(cur.LitAsserts, &LitAssert{Type: f[0], Ord: n, Call: kw == "callassert", Clause: &Clause{Kind: kw, Prop: prop, Text: f[2], Line: ln + 1}})
		case "cases":
			// proof by cases for the loop's preservation obligations: `cases c1; c2; ...` is one dimension (the implicit
			// last case is "none of them"); several `cases` lines multiply. Conditions are evaluated at the start of the body.
			if loop == nil {
				return nil, fmt.Errorf("%s:%d: cases outside loop", file, ln+1)
			}
			var dim []*Clause
			for _, part := range splitTop(rest, ';') {
				part = strings.TrimSpace(part)
				if part != "" {
					dim = append(dim, &Clause{Kind: "cases", Text: part, Line: ln + 1})
				}
			}
			loop.CaseDims = append(loop.CaseDims, dim)
		case "hint", "split":
			// instantiation seeds for the fold split axioms: `split lo, mid, hi; ...` says F(lo,hi) = F(lo,mid) . F(mid,hi)
			// is to be used; `hint e` seeds a one-position unfolding only.
			for _, part := range splitTop(rest, ';') {
				part = strings.TrimSpace(part)
				if part == "" {
					continue
				}
				if kw == "split" {
					part = "fsplit(" + part + ")"
				}
				if t, cond, ok := strings.Cut(part, " when "); ok {
					// `hint TERM when COND`: the guard travels as a clause of its own just before the hint
					wc := &Clause{Kind: "when", Text: strings.TrimSpace(cond), Line: ln + 1}
					if loop != nil {
						loop.Hints = append(loop.Hints, wc)
					} else {
						cur.Hints = append(cur.Hints, wc)
					}
					part = strings.TrimSpace(t)
				}
				cl := &Clause{Kind: "hint", Text: part, Line: ln + 1}
				if loop != nil {
					loop.Hints = append(loop.Hints, cl)
				} else {
					cur.Hints = append(cur.Hints, cl)
				}
			}
		default:
			return nil, fmt.Errorf("%s:%d: unknown contract keyword %q", file, ln+1, kw)
		}
	}
	return out, nil
}

// ---------------- loading ----------------

type Pkg struct {
	Path      string
	Dir       string
	Fset      *token.FileSet
	Files     []*ast.File
	Types     *types.Package
	Info      *types.Info
	Contracts []*Contract
	ByName    map[string]*Contract
	FuncDecls map[string]*ast.FuncDecl // unit-style name -> decl
	Injected  map[ast.Stmt]bool
	sharedPre map[*ast.FuncDecl][]ast.Stmt
	Folds     map[string]*FoldDecl
	Loops     map[*ast.FuncDecl][]ast.Stmt // loops in source order per function
	Errors    []string
}

type World struct {
	Fset *token.FileSet
	Pkgs map[string]*Pkg // by import path
	deps map[string]*types.Package
	cache map[string]any
}

const modPath = "github.com/open2b/scriggo"

var targetPkgs = []string{".", "./native", "./builtin", "./internal/runtime", "./internal/compiler", "./ast/astutil", "./cmd/scriggo", "./ast"}

func loadWorld(repo string, only []string) (*World, error) {
	pats := only
	if len(pats) == 0 {
		pats = targetPkgs
	}
	parsedFolds = map[string][]*FoldDecl{}
	cfg := &packages.Config{
		Mode:       packages.NeedName | packages.NeedFiles | packages.NeedSyntax | packages.NeedTypes | packages.NeedTypesInfo | packages.NeedImports | packages.NeedDeps | packages.NeedTypesSizes,
		Dir:        repo,
		BuildFlags: []string{"-tags=verif"},
		Env:        append(os.Environ(), "GOFLAGS=-mod=mod", "GOPROXY=off"),
	}
	pkgs, err := packages.Load(cfg, pats...)
	if err != nil {
		return nil, err
	}
	w := &World{Pkgs: map[string]*Pkg{}, deps: map[string]*types.Package{}, cache: map[string]any{}}
	packages.Visit(pkgs, nil, func(p *packages.Package) {
		if p.Types != nil {
			w.deps[p.PkgPath] = p.Types
		}
	})
	for _, p := range pkgs {
		for _, e := range p.Errors {
			return nil, fmt.Errorf("load %s: %v", p.PkgPath, e)
		}
		w.Fset = p.Fset
		pk := &Pkg{Path: p.PkgPath, Fset: p.Fset, Files: p.Syntax, ByName: map[string]*Contract{}, FuncDecls: map[string]*ast.FuncDecl{}, Injected: map[ast.Stmt]bool{}, Loops: map[*ast.FuncDecl][]ast.Stmt{}}
		if len(p.GoFiles) > 0 {
			pk.Dir = filepath.Dir(p.GoFiles[0])
		}
		pk.Types = p.Types
		pk.Info = p.TypesInfo
		w.Pkgs[p.PkgPath] = pk
		// contract files
		for _, f := range p.GoFiles {
			if strings.HasSuffix(f, "_verif.go") {
				cs, err := parseContracts(f, p.PkgPath)
				if err != nil {
					return nil, err
				}
				pk.Contracts = append(pk.Contracts, cs...)
			}
		}
		if fds := parsedFolds[p.PkgPath]; len(fds) > 0 {
			pk.Folds = map[string]*FoldDecl{}
			for _, fd := range fds {
				pk.Folds[fd.Name] = fd
			}
		}
		pk.index()
		pk.addAutoMapLoops()
		if err := pk.addCloneUnits(w); err != nil {
			return nil, err
		}
		if len(pk.Contracts) > 0 {
			if err := pk.injectAndRecheck(w); err != nil {
				return nil, err
			}
		}
	}
	return w, nil
}

func recvName(fd *ast.FuncDecl) string {
	if fd.Recv == nil || len(fd.Recv.List) == 0 {
		return ""
	}
	t := fd.Recv.List[0].Type
	ptr := false
	if s, ok := t.(*ast.StarExpr); ok {
		ptr = true
		t = s.X
	}
	if ix, ok := t.(*ast.IndexExpr); ok {
		t = ix.X
	}
	id, ok := t.(*ast.Ident)
	if !ok {
		return "?"
	}
	if ptr {
		return "(*" + id.Name + ")"
	}
	return id.Name
}

func unitNameOf(fd *ast.FuncDecl) string {
	r := recvName(fd)
	if r == "" {
		return fd.Name.Name
	}
	return r + "." + fd.Name.Name
}

func (pk *Pkg) index() {
	for _, f := range pk.Files {
		for _, d := range f.Decls {
			if fd, ok := d.(*ast.FuncDecl); ok && fd.Body != nil {
				pk.FuncDecls[unitNameOf(fd)] = fd
				var loops []ast.Stmt
				ast.Inspect(fd.Body, func(n ast.Node) bool {
					switch n.(type) {
					case *ast.ForStmt, *ast.RangeStmt:
						loops = append(loops, n.(ast.Stmt))
					case *ast.FuncLit:
						// loops inside closures are numbered too (in source order)
					}
					return true
				})
				pk.Loops[fd] = loops
			}
		}
	}
}

func caseLabel(cc *ast.CaseClause) string {
	if len(cc.List) == 0 {
		return "default"
	}
	e := cc.List[0]
	switch x := e.(type) {
	case *ast.Ident:
		return x.Name
	case *ast.SelectorExpr:
		return x.Sel.Name
	case *ast.StarExpr:
		return "*" + exprStr(x.X)
	}
	return exprStr(e)
}

func exprStr(e ast.Expr) string {
	return types.ExprString(e)
}

// findClause finds "Func/case Label" inside fd (the first switch arm, in source order, whose first label prints as Label).
func findClause(fd *ast.FuncDecl, label string) *ast.CaseClause {
	// LABEL#N selects the N-th arm (0-based, source order) whose first label prints as LABEL
	want := 0
	if i := strings.LastIndex(label, "#"); i > 0 {
		if n, err := strconv.Atoi(label[i+1:]); err == nil {
			want, label = n, label[:i]
		}
	}
	var found *ast.CaseClause
	seen := 0
	ast.Inspect(fd.Body, func(n ast.Node) bool {
		if found != nil {
			return false
		}
		if cc, ok := n.(*ast.CaseClause); ok {
			if caseLabel(cc) == label {
				if seen == want {
					found = cc
					return false
				}
				seen++
			}
		}
		return true
	})
	return found
}

// injectAndRecheck inserts the contract expressions into the AST of the annotated functions (as
// `_ = expr` statements that the executor skips) and type-checks the package again so that every
// contract expression is fully typed in the scope it is written for.
func (pk *Pkg) injectAndRecheck(w *World) error {
	for _, c := range pk.Contracts {
		name := c.Name
		label := ""
		if c.Frame != "" {
			pk.ByName[c.Name] = c
			continue
		}
		if c.MapLoop {
			fn, _, _ := strings.Cut(name, "/maploop ")
			fd := pk.FuncDecls[fn]
			if fd == nil {
				return fmt.Errorf("%s:%d: map-loop unit for unknown function %q", c.File, c.Line, fn)
			}
			c.Decl = fd
			pk.ByName[c.Name] = c
			continue
		}
		if i := strings.Index(name, "/case "); i >= 0 {
			label = strings.TrimSpace(name[i+6:])
			name = strings.TrimSpace(name[:i])
		}
		if i := strings.Index(name, "@"); i >= 0 {
			// FUNC@TAG: a further unit over the same function (e.g. one per dynamic type of a parameter)
			name = strings.TrimSpace(name[:i])
		}
		fd := pk.FuncDecls[name]
		if fd == nil {
			return fmt.Errorf("%s:%d: contract for unknown function %q", c.File, c.Line, c.Name)
		}
		c.Decl = fd
		pk.ByName[c.Name] = c
		var body *[]ast.Stmt = &fd.Body.List
		resType := fd.Type
		if strings.HasPrefix(label, "lit ") {
			// FUNC/case lit N: the unit is the body of the N-th function literal of FUNC (source order). It runs like a
			// clause unit - parameters of the literal and the variables it captures are arbitrary - and a `return`
			// sets the literal's results.
			n := -1
			fmt.Sscan(strings.TrimPrefix(label, "lit "), &n)
			var lit *ast.FuncLit
			k := 0
			ast.Inspect(fd.Body, func(x ast.Node) bool {
				if fl, ok := x.(*ast.FuncLit); ok {
					if k == n && lit == nil {
						lit = fl
					}
					k++
				}
				return true
			})
			if lit == nil {
				return fmt.Errorf("%s:%d: no function literal #%d in %s", c.File, c.Line, n, name)
			}
			c.Lit = lit
			c.Clause = &ast.CaseClause{Body: lit.Body.List}
			body = &lit.Body.List
			resType = lit.Type
		} else if label != "" {
			cc := findClause(fd, label)
			if cc == nil {
				return fmt.Errorf("%s:%d: no case %q in %s", c.File, c.Line, label, name)
			}
			c.Clause = cc
			body = &cc.Body
		}
		if c.Lit != nil {
			defer func(c *Contract) { c.Clause.Body = c.Lit.Body.List }(c)
		}
		// result variables
		var pre []ast.Stmt
		if resType.Results != nil {
			n := 0
			for _, f := range resType.Results.List {
				if len(f.Names) == 0 {
					nm := "result"
					if n > 0 {
						nm = fmt.Sprintf("result%d", n)
					}
					c.ResVars = append(c.ResVars, nm)
					pre = append(pre, &ast.DeclStmt{Decl: &ast.GenDecl{Tok: token.VAR, Specs: []ast.Spec{&ast.ValueSpec{Names: []*ast.Ident{ast.NewIdent(nm)}, Type: f.Type}}}})
					pre = append(pre, &ast.AssignStmt{Lhs: []ast.Expr{ast.NewIdent("_")}, Tok: token.ASSIGN, Rhs: []ast.Expr{ast.NewIdent(nm)}})
					n++
				} else {
					for _, id := range f.Names {
						c.ResVars = append(c.ResVars, id.Name)
						n++
					}
				}
			}
		}
		mkStmt := func(cl *Clause) (ast.Stmt, error) {
			src := rewriteImp(cl.Text)
			e, err := parser.ParseExprFrom(pk.Fset, fmt.Sprintf("%s:%d", filepath.Base(c.File), cl.Line), src, 0)
			if err != nil {
				return nil, fmt.Errorf("%s:%d: %v (in %q)", c.File, cl.Line, err, src)
			}
			cl.Expr = e
			return &ast.AssignStmt{Lhs: []ast.Expr{ast.NewIdent("_")}, Tok: token.ASSIGN, Rhs: []ast.Expr{e}}, nil
		}
		if len(c.PanicPost) > 0 {
			anyT := ast.NewIdent("any")
			pre = append(pre, &ast.DeclStmt{Decl: &ast.GenDecl{Tok: token.VAR, Specs: []ast.Spec{&ast.ValueSpec{Names: []*ast.Ident{ast.NewIdent("panicval")}, Type: anyT}}}})
			pre = append(pre, &ast.AssignStmt{Lhs: []ast.Expr{ast.NewIdent("_")}, Tok: token.ASSIGN, Rhs: []ast.Expr{ast.NewIdent("panicval")}})
		}
		var inj, injPost []ast.Stmt
		for _, lst := range [][]*Clause{c.Requires, c.Assumes, c.PanicPost} {
			for _, cl := range lst {
				s, err := mkStmt(cl)
				if err != nil {
					return err
				}
				inj = append(inj, s)
			}
		}
		for _, cl := range c.Ensures {
			s, err := mkStmt(cl)
			if err != nil {
				return err
			}
			injPost = append(injPost, s)
		}
		for _, cl := range c.Hints {
			s, err := mkStmt(cl)
			if err != nil {
				return err
			}
			injPost = append(injPost, s)
		}
		var iterNames []string
		for n := range c.Iters {
			iterNames = append(iterNames, n)
		}
		sort.Strings(iterNames)
		for _, n := range iterNames {
			for _, cl := range c.Iters[n].Invariants {
				s, err := mkStmt(cl)
				if err != nil {
					return err
				}
				injPost = append(injPost, s)
			}
		}
		blk := &ast.BlockStmt{List: inj}
		pk.Injected[blk] = true
		if label == "" {
			// several units over one function (FUNC@TAG) share the declarations of result/panicval
			if pk.sharedPre == nil {
				pk.sharedPre = map[*ast.FuncDecl][]ast.Stmt{}
			}
			have := map[string]bool{}
			for _, s := range pk.sharedPre[fd] {
				if ds, ok := s.(*ast.DeclStmt); ok {
					for _, sp := range ds.Decl.(*ast.GenDecl).Specs {
						for _, id := range sp.(*ast.ValueSpec).Names {
							have[id.Name] = true
						}
					}
				}
			}
			var fresh []ast.Stmt
			for i := 0; i+1 < len(pre); i += 2 {
				// pairs: `var x T` ; `_ = x`
				ds, ok := pre[i].(*ast.DeclStmt)
				if !ok {
					continue
				}
				nm := ds.Decl.(*ast.GenDecl).Specs[0].(*ast.ValueSpec).Names[0].Name
				if !have[nm] {
					fresh = append(fresh, pre[i], pre[i+1])
				}
			}
			pk.sharedPre[fd] = append(pk.sharedPre[fd], fresh...)
			pre = fresh
			c.PreDecls = pk.sharedPre[fd]
		} else {
			c.PreDecls = pre
		}
		for _, s := range pre {
			pk.Injected[s] = true
		}
		postBlk := &ast.BlockStmt{List: injPost}
		pk.Injected[postBlk] = true
		nb := append([]ast.Stmt{}, pre...)
		nb = append(nb, blk)
		if n := len(*body); n > 0 && (label == "" || c.Lit != nil) && resType.Results != nil && len(resType.Results.List) > 0 {
			// keep the function's terminating statement last
			nb = append(nb, (*body)[:n-1]...)
			nb = append(nb, postBlk, (*body)[n-1])
		} else {
			nb = append(nb, *body...)
			nb = append(nb, postBlk)
		}
		*body = nb
		// literal assertions: `{ var lit T; _ = lit; _ = EXPR }` is injected right before the statement that holds the literal
		for _, la := range c.LitAsserts {
			if err := pk.injectLitAssert(c, fd, la); err != nil {
				return err
			}
		}
		// loops
		var loops []ast.Stmt
		if label == "" {
			loops = pk.Loops[fd]
		} else {
			for _, s := range c.Clause.Body {
				ast.Inspect(s, func(n ast.Node) bool {
					switch n.(type) {
					case *ast.ForStmt, *ast.RangeStmt:
						loops = append(loops, n.(ast.Stmt))
					}
					return true
				})
			}
		}
		var ords []int
		for o := range c.Loops {
			ords = append(ords, o)
		}
		sort.Ints(ords)
		for _, o := range ords {
			ls := c.Loops[o]
			if o >= len(loops) {
				return fmt.Errorf("%s:%d: %s has no loop %d", c.File, c.Line, c.Name, o)
			}
			var lb *ast.BlockStmt
			switch l := loops[o].(type) {
			case *ast.ForStmt:
				lb = l.Body
			case *ast.RangeStmt:
				lb = l.Body
			}
			var linj []ast.Stmt
			cls := append([]*Clause{}, ls.Invariants...)
			if ls.Decreases != nil {
				cls = append(cls, ls.Decreases)
			}
			cls = append(cls, ls.Hints...)
			for _, dim := range ls.CaseDims {
				cls = append(cls, dim...)
			}
			for _, cl := range cls {
				s, err := mkStmt(cl)
				if err != nil {
					return err
				}
				linj = append(linj, s)
			}
			b2 := &ast.BlockStmt{List: linj}
			pk.Injected[b2] = true
			lb.List = append([]ast.Stmt{b2}, lb.List...)
		}
	}
	// re-typecheck
	info := &types.Info{
		Types:      map[ast.Expr]types.TypeAndValue{},
		Defs:       map[*ast.Ident]types.Object{},
		Uses:       map[*ast.Ident]types.Object{},
		Implicits:  map[ast.Node]types.Object{},
		Selections: map[*ast.SelectorExpr]*types.Selection{},
		Scopes:     map[ast.Node]*types.Scope{},
		Instances:  map[*ast.Ident]types.Instance{},
	}
	var errs []string
	conf := types.Config{
		Importer:  importerFunc(func(path string) (*types.Package, error) {
			if p, ok := w.deps[path]; ok {
				return p, nil
			}
			return nil, fmt.Errorf("package %s not loaded", path)
		}),
		GoVersion: "go1.25",
		Sizes:     types.SizesFor("gc", "amd64"),
		Error: func(err error) {
			errs = append(errs, err.Error())
		},
	}
	tp, _ := conf.Check(pk.Path, pk.Fset, pk.Files, info)
	if len(errs) > 0 {
		if len(errs) > 15 {
			errs = errs[:15]
		}
		return fmt.Errorf("contract type errors in %s:\n  %s", pk.Path, strings.Join(errs, "\n  "))
	}
	pk.Types = tp
	pk.Info = info
	return nil
}

type importerFunc func(path string) (*types.Package, error)

func (f importerFunc) Import(path string) (*types.Package, error) { return f(path) }
