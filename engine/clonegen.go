package main

import (
	"bytes"
	"fmt"
	"go/ast"
	"go/printer"
	"go/token"
	"go/types"
	"os"
	"path/filepath"
	"sort"
	"strings"
)

// C28, specification generated from the type declarations (DESIGN 5/C28).
//
// For every struct type T of package ast whose pointer implements ast.Node, a unit CloneNode@T (and, when *T is an
// ast.Expression, CloneExpression@T) is synthesised on every run: the real function is executed with its interface
// parameter holding a non-nil *T (arms of the type switch are selected statically, so a type without an arm reaches
// the default panic and fails the unit's panic obligation), and the postconditions say, field by field of T's
// declaration, what a structurally equal independent copy is. Recursive calls are the uninterpreted functions
// CloneNode / CloneExpression (trusted base contracts in the contract file, discharged by these very units: the
// argument is the usual induction over the tree). Loop invariants are proposed from the shape of each loop
// (`dst[i] = f(src[i])`, `dst = append(dst, f(v))`) and verified like written ones, so a wrong proposal can only
// fail, never prove.
const astutilPath = modPath + "/ast/astutil"
const astPath = modPath + "/ast"

// fields of ast nodes that are annotations of later compiler phases, not part of the parsed tree (not specified)
var cloneSkipFields = map[string]bool{"IR": true, "Upvars": true, "Reflect": true}

type cloneGen struct {
	pk      *Pkg
	astPkg  *types.Package
	node    *types.Interface
	expr    *types.Interface
	nodeTs  map[string]*types.Named // struct name -> named type, for node types
	out     bytes.Buffer
	notes   []string
}

func (pk *Pkg) addCloneUnits(w *World) error {
	if pk.Path != astutilPath || os.Getenv("GOVC_NO_CLONEGEN") != "" {
		return nil
	}
	var astPkg *types.Package
	for _, imp := range pk.Types.Imports() {
		if imp.Path() == astPath {
			astPkg = imp
		}
	}
	if astPkg == nil || pk.FuncDecls["CloneNode"] == nil || pk.FuncDecls["CloneExpression"] == nil {
		return nil
	}
	nodeObj, exprObj := astPkg.Scope().Lookup("Node"), astPkg.Scope().Lookup("Expression")
	if nodeObj == nil || exprObj == nil {
		return nil
	}
	g := &cloneGen{pk: pk, astPkg: astPkg, nodeTs: map[string]*types.Named{}}
	g.node, _ = nodeObj.Type().Underlying().(*types.Interface)
	g.expr, _ = exprObj.Type().Underlying().(*types.Interface)
	var names []string
	for _, n := range astPkg.Scope().Names() {
		tn, ok := astPkg.Scope().Lookup(n).(*types.TypeName)
		if !ok || !tn.Exported() {
			continue
		}
		named, ok := tn.Type().(*types.Named)
		if !ok {
			continue
		}
		if _, isStruct := named.Underlying().(*types.Struct); !isStruct {
			continue
		}
		if n == "Position" || n == "Placeholder" {
			// Position is a helper that happens to have the Node methods; a Placeholder is created by the type
			// checker only (it has no position) and never occurs in a parsed tree
			continue
		}
		if types.Implements(types.NewPointer(named), g.node) {
			g.nodeTs[n] = named
			names = append(names, n)
		}
	}
	sort.Strings(names)
	for _, n := range names {
		g.unit(n)
	}
	if pk.FuncDecls["Walk"] != nil {
		for _, n := range names {
			g.walkUnit(n)
		}
	}
	text := g.out.String()
	_ = os.MkdirAll(filepath.Join(outDir(), "work"), 0o755)
	_ = os.WriteFile(filepath.Join(outDir(), "work", "C28_generated_contracts.txt"), []byte(text), 0o644)
	cs, err := parseContractsData([]byte(text), "(generated from ast type declarations)", pk.Path)
	if err != nil {
		return err
	}
	pk.Contracts = append(pk.Contracts, cs...)
	return nil
}

func (g *cloneGen) isExprType(named *types.Named) bool {
	return types.Implements(types.NewPointer(named), g.expr)
}

func (g *cloneGen) p(format string, a ...any) { fmt.Fprintf(&g.out, "//@ "+format+"\n", a...) }

// unit emits the units for node type name.
func (g *cloneGen) unit(name string) {
	named := g.nodeTs[name]
	isExpr := g.isExprType(named)
	// CloneNode@T
	g.header("CloneNode", "node", name)
	if isExpr {
		g.p("  ensures result == CloneExpression(node.(ast.Expression))")
	} else {
		g.spec("CloneNode", "node", name, named)
	}
	g.out.WriteString("\n")
	if isExpr {
		g.header("CloneExpression", "expr", name)
		g.spec("CloneExpression", "expr", name, named)
		g.out.WriteString("\n")
	}
}

func (g *cloneGen) header(fn, param, name string) {
	g.p("func %s@%s", fn, name)
	g.p("  props C28")
	g.p("  opt dyntype %s *ast.%s", param, name)
	g.p("  opt typednil yes")
	g.p("  opt loopframe yes")
	g.p("  opt nonnilfields expression")
	g.p("  modifies nothing")
	g.p("  opt allocates yes")
	g.p("  requires !typedNil(%s)", param)
	// assumed of parsed trees (the grammar makes these children mandatory; lists hold no nil entries)
	named := g.nodeTs[name]
	st := named.Underlying().(*types.Struct)
	N := fmt.Sprintf("%s.(*ast.%s)", param, name)
	for i := 0; i < st.NumFields(); i++ {
		f := st.Field(i)
		if cloneSkipFields[f.Name()] {
			continue
		}
		if cloneMandatory[name+"."+f.Name()] {
			g.p("  requires %s.%s != nil", N, f.Name())
		}
		if sl, ok := types.Unalias(f.Type()).Underlying().(*types.Slice); ok {
			et := types.Unalias(sl.Elem())
			_, isNodePtr := g.nodeNamed(et)
			isNodeIface := false
			if nm, ok := et.(*types.Named); ok && nm.Obj().Pkg() == g.astPkg && nm.Obj().Name() == "Node" {
				isNodeIface = true
			}
			isHelperPtr := false
			if pt, ok := et.(*types.Pointer); ok && !isNodePtr {
				_, isHelperPtr = pt.Elem().Underlying().(*types.Struct)
			}
			if isNodePtr || isNodeIface || isHelperPtr {
				g.p("  requires forall(0, len(%s.%s), func(k int) bool { return %s.%s[k] != nil })", N, f.Name(), N, f.Name())
			}
		}
	}
}

// cloneMandatory: children that the grammar makes mandatory, so a parsed tree never has nil there (assumed of the
// data; every other pointer or interface child may be nil and must then be nil in the copy). Not in the table although
// one might expect them: Raw.Text (nil for an empty raw block), Label.Statement (nil for a label before `}`),
// Func.Body (nil for a declaration without body), and every node's Position (nil for the blocks of if, else, using).
var cloneMandatory = map[string]bool{
	"ForIn.Ident": true, "ForRange.Assignment": true, "Func.Type": true, "Goto.Label": true,
	"If.Then": true, "Label.Ident": true, "TypeDeclaration.Ident": true, "Using.Statement": true,
}

// spec emits the postconditions for T and the proposed loop invariants of the arm that handles T.
func (g *cloneGen) spec(fn, param, name string, named *types.Named) {
	N := fmt.Sprintf("%s.(*ast.%s)", param, name)
	R := fmt.Sprintf("result.(*ast.%s)", name)
	g.p("  opt freshresult *ast.%s", name)
	g.p("  opt freshskip IR Upvars Reflect")
	var nodeNames []string
	for n := range g.nodeTs {
		nodeNames = append(nodeNames, astPath+"."+n)
	}
	sort.Strings(nodeNames)
	g.p("  opt freshnodes  %s ", strings.Join(nodeNames, " "))
	g.p("  ensures %s != nil && %s != %s", R, R, N)
	st := named.Underlying().(*types.Struct)
	for i := 0; i < st.NumFields(); i++ {
		f := st.Field(i)
		if cloneSkipFields[f.Name()] {
			continue
		}
		for _, cl := range g.fieldSpec(N+"."+f.Name(), R+"."+f.Name(), f, name, 0) {
			for _, part := range splitConj(cl) {
				g.p("  ensures %s", part)
			}
		}
	}
	g.loops(fn, param, name, named)
}

func (g *cloneGen) nodeNamed(t types.Type) (*types.Named, bool) {
	pt, ok := types.Unalias(t).(*types.Pointer)
	if !ok {
		return nil, false
	}
	named, ok := types.Unalias(pt.Elem()).(*types.Named)
	if !ok || named.Obj().Pkg() != g.astPkg {
		return nil, false
	}
	_, isNode := g.nodeTs[named.Obj().Name()]
	return named, isNode
}

// childSpec: how the copy c of a child o must relate to it. o and c are Go expressions.
func (g *cloneGen) childSpec(o, c string, t types.Type) (string, bool) {
	return g.childSpec2(o, c, t, false)
}

// childSpec2: elem says the child is an element of a list (assumed non-nil for nodes; the clause then only names the
// clone function's result, whose own postconditions carry non-nilness and freshness).
func (g *cloneGen) childSpec2(o, c string, t types.Type, elem bool) (string, bool) {
	tt := types.Unalias(t)
	if named, ok := tt.(*types.Named); ok && named.Obj().Pkg() == g.astPkg {
		switch named.Obj().Name() {
		case "Expression":
			if elem {
				return fmt.Sprintf("%s == CloneExpression(%s)", c, o), true
			}
			return fmt.Sprintf("(%s != nil || %s == nil) && (%s == nil || %s == CloneExpression(%s))", o, c, o, c, o), true
		case "Node":
			if elem {
				return fmt.Sprintf("%s == CloneNode(%s)", c, o), true
			}
			return fmt.Sprintf("(%s != nil || %s == nil) && (%s == nil || %s == CloneNode(%s))", o, c, o, c, o), true
		}
	}
	if named, ok := g.nodeNamed(tt); ok {
		n := named.Obj().Name()
		var viaCall string
		if g.isExprType(named) {
			viaCall = fmt.Sprintf("%s == CloneExpression(%s).(*ast.%s)", c, o, n)
			if !elem {
				// an expression child may be copied by either clone function
				viaCall = fmt.Sprintf("(%s || %s == CloneNode(%s).(*ast.%s))", viaCall, c, o, n)
			}
		} else {
			viaCall = fmt.Sprintf("%s == CloneNode(%s).(*ast.%s)", c, o, n)
		}
		if elem {
			return viaCall, true
		}
		if n == "Identifier" {
			// an identifier may also be copied in place: a new Identifier with the same name and a copy of the position
			viaCall = fmt.Sprintf("(%s || identCopy(%s, %s))", viaCall, o, c)
		}
		return fmt.Sprintf("(%s != nil || %s == nil) && (%s == nil || %s != nil) && (%s == nil || %s != %s) && (%s == nil || %s)", o, c, o, c, o, c, o, o, viaCall), true
	}
	return "", false
}

func isScalar(t types.Type) bool {
	switch u := types.Unalias(t).Underlying().(type) {
	case *types.Basic:
		return true
	case *types.Struct:
		for i := 0; i < u.NumFields(); i++ {
			if !isScalar(u.Field(i).Type()) {
				return false
			}
		}
		return true
	case *types.Array:
		return isScalar(u.Elem())
	}
	return false
}

func scalarEq(o, c string, t types.Type) []string {
	if u, ok := types.Unalias(t).Underlying().(*types.Struct); ok {
		var out []string
		for i := 0; i < u.NumFields(); i++ {
			out = append(out, scalarEq(o+"."+u.Field(i).Name(), c+"."+u.Field(i).Name(), u.Field(i).Type())...)
		}
		return out
	}
	return []string{fmt.Sprintf("%s == %s", c, o)}
}

// fieldSpec returns the postcondition clauses for one field (o: original, c: copy).
func (g *cloneGen) fieldSpec(o, c string, f *types.Var, owner string, depth int) []string {
	t := types.Unalias(f.Type())
	// embedded position
	if pt, ok := t.(*types.Pointer); ok {
		if named, ok := types.Unalias(pt.Elem()).(*types.Named); ok && named.Obj().Pkg() == g.astPkg {
			switch named.Obj().Name() {
			case "Position":
				if owner == "Tree" {
					g.notes = append(g.notes, "Tree.Position is not specified (NewTree sets a fixed position)")
					return nil
				}
				// the parser leaves the position of some nodes nil (the blocks of if/else/using): nil stays nil
				return []string{fmt.Sprintf("(%s == nil) == (%s == nil)", c, o),
					fmt.Sprintf("%s != nil ==> %s != %s && %s.Line == %s.Line && %s.Column == %s.Column && %s.Start == %s.Start && %s.End == %s.End", o, c, o, c, o, c, o, c, o, c, o)}
			case "expression":
				base := strings.TrimSuffix(o, ".expression")
				cb := strings.TrimSuffix(c, ".expression")
				return []string{fmt.Sprintf("%s.Parenthesis() == %s.Parenthesis()", cb, base)}
			}
		}
	}
	if named, ok := t.(*types.Named); ok && named.Obj().Pkg() == g.astPkg && named.Obj().Name() == "expression" {
		base := strings.TrimSuffix(o, ".expression")
		cb := strings.TrimSuffix(c, ".expression")
		return []string{fmt.Sprintf("%s.Parenthesis() == %s.Parenthesis()", cb, base)}
	}
	if isScalar(t) {
		return scalarEq(o, c, t)
	}
	if cs, ok := g.childSpec(o, c, t); ok {
		return []string{cs}
	}
	if sl, ok := t.Underlying().(*types.Slice); ok {
		k := "k"
		if depth > 0 {
			k = fmt.Sprintf("k%d", depth+1)
		}
		lenEq := fmt.Sprintf("len(%s) == len(%s)", c, o)
		et := types.Unalias(sl.Elem())
		if isScalar(et) {
			return []string{lenEq, fmt.Sprintf("forall(0, len(%s), func(%s int) bool { return %s[%s] == %s[%s] })", o, k, c, k, o, k)}
		}
		if cs, ok := g.childSpec2(o+"["+k+"]", c+"["+k+"]", et, true); ok {
			return []string{lenEq, fmt.Sprintf("forall(0, len(%s), func(%s int) bool { return %s })", o, k, cs)}
		}
		// slices of helper structs (KeyValue, *Field, *Parameter): element by element, field by field
		var est *types.Struct
		var inner []string
		oe, ce := o+"["+k+"]", c+"["+k+"]"
		if pt, ok := et.(*types.Pointer); ok {
			est, _ = pt.Elem().Underlying().(*types.Struct)
			inner = append(inner, fmt.Sprintf("%s != nil && %s != %s", ce, ce, oe))
		} else {
			est, _ = et.Underlying().(*types.Struct)
		}
		if est != nil && depth == 0 && os.Getenv("GOVC_CLONE_NESTED") == "" {
			// lists of helper structs (KeyValue, *Field, *Parameter) are copied by loops with local temporaries or nested
			// loops for which no invariant is proposed: only the length is specified
			g.notes = append(g.notes, fmt.Sprintf("elements of %s (%s) are not specified: only the length of the list is", o, t))
			return []string{lenEq}
		}
		if est != nil && depth == 0 {
			for i := 0; i < est.NumFields(); i++ {
				inner = append(inner, g.fieldSpec(oe+"."+est.Field(i).Name(), ce+"."+est.Field(i).Name(), est.Field(i), owner, depth+1)...)
			}
			out := []string{lenEq}
			for _, in := range inner {
				out = append(out, fmt.Sprintf("forall(0, len(%s), func(%s int) bool { return %s })", o, k, in))
			}
			return out
		}
	}
	g.notes = append(g.notes, fmt.Sprintf("field %s of type %s is not specified", o, t))
	return nil
}

// ---- loop invariant proposals ----

// armOf finds the case clause of fn's type switch that handles *ast.T (first clause, in order, that lists the type
// or an interface it implements).
func (g *cloneGen) armOf(fd *ast.FuncDecl, named *types.Named) *ast.CaseClause {
	pt := types.NewPointer(named)
	var found *ast.CaseClause
	ast.Inspect(fd.Body, func(n ast.Node) bool {
		ts, ok := n.(*ast.TypeSwitchStmt)
		if !ok || found != nil {
			return found == nil
		}
		for _, s := range ts.Body.List {
			cc := s.(*ast.CaseClause)
			for _, tx := range cc.List {
				ct := g.pk.Info.TypeOf(tx)
				if ct == nil {
					continue
				}
				if iface, isI := types.Unalias(ct).Underlying().(*types.Interface); isI {
					if types.Implements(pt, iface) {
						found = cc
					}
				} else if types.Identical(ct, pt) {
					found = cc
				}
				if found != nil {
					return false
				}
			}
		}
		return false
	})
	return found
}

func (g *cloneGen) exprText(x ast.Expr) string {
	var b bytes.Buffer
	_ = printer.Fprint(&b, token.NewFileSet(), x)
	return b.String()
}

// substIdents prints x with the identifiers bound to the given objects replaced by replacement texts.
func (g *cloneGen) substIdents(x ast.Expr, repl map[types.Object]string) string {
	var rec func(n ast.Node) ast.Node
	cp := func(e ast.Expr) ast.Expr {
		if e == nil {
			return nil
		}
		return rec(e).(ast.Expr)
	}
	rec = func(n ast.Node) ast.Node {
		switch v := n.(type) {
		case *ast.Ident:
			if obj := g.pk.Info.ObjectOf(v); obj != nil {
				if r, ok := repl[obj]; ok {
					return &ast.Ident{Name: r}
				}
			}
			return &ast.Ident{Name: v.Name}
		case *ast.SelectorExpr:
			return &ast.SelectorExpr{X: cp(v.X), Sel: &ast.Ident{Name: v.Sel.Name}}
		case *ast.CallExpr:
			c := &ast.CallExpr{Fun: cp(v.Fun)}
			for _, a := range v.Args {
				c.Args = append(c.Args, cp(a))
			}
			return c
		case *ast.IndexExpr:
			return &ast.IndexExpr{X: cp(v.X), Index: cp(v.Index)}
		case *ast.TypeAssertExpr:
			return &ast.TypeAssertExpr{X: cp(v.X), Type: cp(v.Type)}
		case *ast.StarExpr:
			return &ast.StarExpr{X: cp(v.X)}
		case *ast.ParenExpr:
			return &ast.ParenExpr{X: cp(v.X)}
		case *ast.UnaryExpr:
			return &ast.UnaryExpr{Op: v.Op, X: cp(v.X)}
		case *ast.BinaryExpr:
			return &ast.BinaryExpr{Op: v.Op, X: cp(v.X), Y: cp(v.Y)}
		case *ast.BasicLit:
			return &ast.BasicLit{Kind: v.Kind, Value: v.Value}
		}
		return nil
	}
	defer func() { _ = recover() }()
	r := rec(x)
	if r == nil {
		return ""
	}
	return g.exprText(r.(ast.Expr))
}

type loopFact struct {
	lenFact string // len(dst) == len(src)
	full    string // forall over the whole source
}

// loops proposes invariants for the loops directly inside the arm handling T.
func (g *cloneGen) loops(fn, param, name string, named *types.Named) {
	fd := g.pk.FuncDecls[fn]
	cc := g.armOf(fd, named)
	if cc == nil {
		return
	}
	all := g.pk.Loops[fd]
	ordOf := func(s ast.Stmt) int {
		for i, l := range all {
			if l == s {
				return i
			}
		}
		return -1
	}
	var done []loopFact
	var visit func(list []ast.Stmt)
	visit = func(list []ast.Stmt) {
		for _, s := range list {
			switch v := s.(type) {
			case *ast.IfStmt:
				// `if src != nil { dst = make(...); for ... }`
				if v.Else == nil {
					visit(v.Body.List)
				}
			case *ast.RangeStmt:
				ord := ordOf(v)
				if ord < 0 {
					continue
				}
				base := map[types.Object]string{}
				shadow := map[string]bool{}
				for _, x := range []ast.Expr{v.Key, v.Value} {
					if id, ok := x.(*ast.Ident); ok {
						shadow[id.Name] = true
					}
				}
				if obj := g.pk.Info.Implicits[cc]; obj != nil {
					// the variable bound by the type switch may be shadowed inside the loop: name the node through the
					// parameter then (and the other way round)
					if shadow[obj.Name()] && !shadow[param] {
						base[obj] = fmt.Sprintf("%s.(*ast.%s)", param, name)
					} else if shadow[obj.Name()] {
						continue
					}
				}
				invs, fact, ok := g.rangeInvariants(v, ord, base)
				g.p("  loop %d", ord)
				for _, d := range done {
					g.p("    invariant %s", d.lenFact)
					g.p("    invariant %s", d.full)
				}
				for _, inv := range invs {
					g.p("    invariant %s", inv)
				}
				if ok {
					done = append(done, fact)
				}
			}
		}
	}
	visit(cc.Body)
}

// rangeInvariants recognises `for i, v := range SRC { DST[i] = RHS }`, `for i := range SRC { DST[i] = RHS }` and
// `for _, v := range SRC { DST = append(DST, RHS) }`.
func (g *cloneGen) rangeInvariants(rs *ast.RangeStmt, ord int, base map[types.Object]string) ([]string, loopFact, bool) {
	if len(rs.Body.List) != 1 {
		return nil, loopFact{}, false
	}
	as, ok := rs.Body.List[0].(*ast.AssignStmt)
	if !ok || len(as.Lhs) != 1 || len(as.Rhs) != 1 || as.Tok != token.ASSIGN {
		return nil, loopFact{}, false
	}
	src := g.substIdents(rs.X, base)
	if src == "" {
		return nil, loopFact{}, false
	}
	var keyObj, valObj types.Object
	if id, ok := rs.Key.(*ast.Ident); ok && id.Name != "_" {
		keyObj = g.pk.Info.ObjectOf(id)
	}
	if rs.Value != nil {
		if id, ok := rs.Value.(*ast.Ident); ok && id.Name != "_" {
			valObj = g.pk.Info.ObjectOf(id)
		}
	}
	repl := map[types.Object]string{}
	for k, v := range base {
		repl[k] = v
	}
	if valObj != nil {
		repl[valObj] = src + "[k]"
	}
	if keyObj != nil {
		repl[keyObj] = "k"
	}
	if ix, ok := as.Lhs[0].(*ast.IndexExpr); ok && keyObj != nil {
		if id, ok := ix.Index.(*ast.Ident); ok && g.pk.Info.ObjectOf(id) == keyObj {
			dst := g.exprText(ix.X)
			rhs := g.substIdents(as.Rhs[0], repl)
			if rhs == "" {
				return nil, loopFact{}, false
			}
			lenFact := fmt.Sprintf("len(%s) == len(%s)", dst, src)
			key := keyObj.Name()
			inv := fmt.Sprintf("forall(0, %s, func(k int) bool { return %s[k] == %s })", key, dst, rhs)
			full := fmt.Sprintf("forall(0, len(%s), func(k int) bool { return %s[k] == %s })", src, dst, rhs)
			return []string{lenFact, inv}, loopFact{lenFact, full}, true
		}
	}
	if call, ok := as.Rhs[0].(*ast.CallExpr); ok && g.exprText(call.Fun) == "append" && len(call.Args) == 2 && g.exprText(call.Args[0]) == g.exprText(as.Lhs[0]) {
		dst := g.exprText(as.Lhs[0])
		rhs := g.substIdents(call.Args[1], repl)
		if rhs == "" {
			return nil, loopFact{}, false
		}
		idx := fmt.Sprintf("rangeIndex(%d)", ord)
		inv1 := fmt.Sprintf("len(%s) == %s && cap(%s) >= len(%s) && freshSlice(%s)", dst, idx, dst, src, dst)
		inv2 := fmt.Sprintf("forall(0, %s, func(k int) bool { return %s[k] == %s })", idx, dst, rhs)
		lenFact := fmt.Sprintf("len(%s) == len(%s)", dst, src)
		full := fmt.Sprintf("forall(0, len(%s), func(k int) bool { return %s[k] == %s })", src, dst, rhs)
		return []string{inv1, inv2}, loopFact{lenFact, full}, true
	}
	return nil, loopFact{}, false
}

// splitConj splits "(a) && (b) && (c)" at top level; anything else is returned whole.
func splitConj(s string) []string {
	if !strings.HasPrefix(s, "(") {
		return []string{s}
	}
	var parts []string
	d, start := 0, 0
	for i := 0; i < len(s); i++ {
		switch s[i] {
		case '(', '{', '[':
			d++
		case ')', '}', ']':
			d--
		case '&':
			if d == 0 && i+1 < len(s) && s[i+1] == '&' {
				parts = append(parts, strings.TrimSpace(s[start:i]))
				start = i + 2
				i++
			}
		}
	}
	parts = append(parts, strings.TrimSpace(s[start:]))
	for _, p := range parts {
		if !strings.HasPrefix(p, "(") || !strings.HasSuffix(p, ")") {
			return []string{s}
		}
	}
	return parts
}

// ---- Walk ----

// walkNoChildren: node types whose children Walk leaves to the visitor by documented design ("visiting the expanded
// tree is done by the Visit function if necessary", walk.go).
var walkNoChildren = map[string]bool{"Extends": true, "Import": true, "Render": true}

type walkSlot struct {
	expr    string // Go expression naming the child (or the list)
	list    bool
	guard   string // extra guard (for children inside helper structs): "" or a condition
	inner   string // for helper lists: the per-element child expression with index variable k
	innerNilable bool
}

// walkUnit emits Walk@T: with the visitor's Visit treated as a function without effect on the tree, and recursive
// calls of Walk recorded in the ghost-visit log, every non-nil child named by T's declaration has been handed to
// Walk when Walk returns, and the number of such calls is the number of non-nil children (so none is visited twice
// unless another is skipped; with the first clause, each exactly once when the children are distinct).
func (g *cloneGen) walkUnit(name string) {
	named := g.nodeTs[name]
	st := named.Underlying().(*types.Struct)
	N := fmt.Sprintf("node.(*ast.%s)", name)
	g.p("func Walk@%s", name)
	g.p("  props C28")
	g.p("  opt dyntype node *ast.%s", name)
	g.p("  opt typednil yes")
	g.p("  opt nonnilfields expression")
	g.p("  opt ghostvisit Walk")
	g.p("  opt puremethods Visit")
	g.p("  requires v != nil && !typedNil(node)")
	G := "old(v).Visit(node) != nil"
	var countTerms []string
	countable := true
	var posts []string
	for i := 0; i < st.NumFields(); i++ {
		f := st.Field(i)
		if cloneSkipFields[f.Name()] || walkNoChildren[name] {
			continue
		}
		t := types.Unalias(f.Type())
		fe := N + "." + f.Name()
		if cloneMandatory[name+"."+f.Name()] {
			g.p("  requires %s != nil", fe)
		}
		if g.isChildType(t) {
			posts = append(posts, fmt.Sprintf("%s && %s != nil ==> visited(%s)", G, fe, fe))
			countTerms = append(countTerms, fmt.Sprintf("b2i(%s != nil)", fe))
			continue
		}
		sl, ok := t.Underlying().(*types.Slice)
		if !ok {
			continue
		}
		et := types.Unalias(sl.Elem())
		if g.isChildType(et) {
			g.p("  requires forall(0, len(%s), func(k int) bool { return %s[k] != nil })", fe, fe)
			posts = append(posts, fmt.Sprintf("%s ==> forall(0, len(%s), func(k int) bool { return visited(%s[k]) })", G, fe, fe))
			countTerms = append(countTerms, fmt.Sprintf("len(%s)", fe))
			continue
		}
		// helper structs
		var est *types.Struct
		if pt, ok := et.(*types.Pointer); ok {
			est, _ = pt.Elem().Underlying().(*types.Struct)
			if est != nil {
				g.p("  requires forall(0, len(%s), func(k int) bool { return %s[k] != nil })", fe, fe)
			}
		} else {
			est, _ = et.Underlying().(*types.Struct)
		}
		if est == nil {
			continue
		}
		for j := 0; j < est.NumFields(); j++ {
			ef := est.Field(j)
			eft := types.Unalias(ef.Type())
			ee := fmt.Sprintf("%s[k].%s", fe, ef.Name())
			if g.isChildType(eft) {
				posts = append(posts, fmt.Sprintf("%s ==> forall(0, len(%s), func(k int) bool { return %s == nil || visited(%s) })", G, fe, ee, ee))
				countable = false
			} else if isl, ok := eft.Underlying().(*types.Slice); ok && g.isChildType(types.Unalias(isl.Elem())) {
				g.p("  requires forall(0, len(%s), func(k int) bool { return forall(0, len(%s), func(k2 int) bool { return %s[k2] != nil }) })", fe, ee, ee)
				posts = append(posts, fmt.Sprintf("%s ==> forall(0, len(%s), func(k int) bool { return forall(0, len(%s), func(k2 int) bool { return %s[k2] == nil || visited(%s[k2]) }) })", G, fe, ee, ee, ee))
				countable = false
			}
		}
	}
	for _, p := range posts {
		g.p("  ensures %s", p)
	}
	if countable {
		sum := "0"
		if len(countTerms) > 0 {
			sum = strings.Join(countTerms, " + ")
		}
		g.p("  ensures %s ==> nvisits() == %s", G, sum)
	} else {
		g.notes = append(g.notes, "Walk@"+name+": the number of visits is not specified (children inside helper structs)")
	}
	g.p("  ensures !(%s) ==> nvisits() == 0", G)
	g.walkLoops(name, named)
	g.out.WriteString("\n")
}

// isChildType: ast.Node, ast.Expression or a pointer to a node struct.
func (g *cloneGen) isChildType(t types.Type) bool {
	if named, ok := t.(*types.Named); ok && named.Obj().Pkg() == g.astPkg {
		if n := named.Obj().Name(); n == "Node" || n == "Expression" {
			return true
		}
	}
	_, ok := g.nodeNamed(t)
	return ok
}

// walkLoops proposes invariants for the loops of the arm handling T: for `for _, c := range SRC { Walk(v, c) }`
// "the first rangeIndex elements of SRC are visited" and "the count grew by rangeIndex"; for bodies with several
// (possibly nil-guarded) Walk calls and for one level of nesting, "every child named by the completed iterations is nil
// or visited". Facts established by earlier loops of the arm and by enclosing loops are restated, because the ghost log
// is havocked at every loop head.
func (g *cloneGen) walkLoops(name string, named *types.Named) {
	fd := g.pk.FuncDecls["Walk"]
	cc := g.armOf(fd, named)
	if cc == nil {
		return
	}
	all := g.pk.Loops[fd]
	ordOf := func(s ast.Stmt) int {
		for i, l := range all {
			if l == s {
				return i
			}
		}
		return -1
	}
	// walkArgs returns the arguments of the Walk calls made directly by the statements (also under `if x != nil`)
	var walkArgs func(list []ast.Stmt) (args []ast.Expr, plain bool)
	walkArgs = func(list []ast.Stmt) ([]ast.Expr, bool) {
		var out []ast.Expr
		plain := len(list) == 1
		for _, s := range list {
			switch v := s.(type) {
			case *ast.ExprStmt:
				if call, ok := v.X.(*ast.CallExpr); ok && g.exprText(call.Fun) == "Walk" && len(call.Args) == 2 {
					out = append(out, call.Args[1])
				}
			case *ast.IfStmt:
				plain = false
				if v.Else == nil {
					in, _ := walkArgs(v.Body.List)
					out = append(out, in...)
				}
			default:
				plain = false
			}
		}
		return out, plain
	}
	base := func(rs *ast.RangeStmt) (map[types.Object]string, bool) {
		shadow := map[string]bool{}
		for _, x := range []ast.Expr{rs.Key, rs.Value} {
			if id, ok := x.(*ast.Ident); ok {
				shadow[id.Name] = true
			}
		}
		b := map[types.Object]string{}
		if obj := g.pk.Info.Implicits[cc]; obj != nil && shadow[obj.Name()] {
			if shadow["node"] {
				return nil, false
			}
			b[obj] = fmt.Sprintf("node.(*ast.%s)", name)
		}
		return b, true
	}
	bindElem := func(rs *ast.RangeStmt, repl map[types.Object]string, src, k string) {
		if id, ok := rs.Value.(*ast.Ident); ok && id.Name != "_" {
			repl[g.pk.Info.ObjectOf(id)] = src + "[" + k + "]"
		}
		if id, ok := rs.Key.(*ast.Ident); ok && id.Name != "_" {
			repl[g.pk.Info.ObjectOf(id)] = k
		}
	}
	cp := func(m map[types.Object]string) map[types.Object]string {
		o := map[types.Object]string{}
		for k, v := range m {
			o[k] = v
		}
		return o
	}
	var done []string
	for _, s := range cc.Body {
		rs, ok := s.(*ast.RangeStmt)
		if !ok {
			continue
		}
		ord := ordOf(rs)
		b, ok := base(rs)
		if ord < 0 || !ok {
			continue
		}
		src := g.substIdents(rs.X, b)
		if src == "" {
			continue
		}
		idx := fmt.Sprintf("rangeIndex(%d)", ord)
		args, plain := walkArgs(rs.Body.List)
		var own, full []string // invariants of this loop; the same facts over the whole source
		replK := cp(b)
		bindElem(rs, replK, src, "k")
		for _, a := range args {
			at := g.substIdents(a, replK)
			if at == "" {
				continue
			}
			body := fmt.Sprintf("%s == nil || visited(%s)", at, at)
			if plain {
				body = fmt.Sprintf("visited(%s)", at)
			}
			own = append(own, fmt.Sprintf("forall(0, %s, func(k int) bool { return %s })", idx, body))
			full = append(full, fmt.Sprintf("forall(0, len(%s), func(k int) bool { return %s })", src, body))
		}
		// one level of nesting
		type inner struct {
			rs   *ast.RangeStmt
			ord  int
			invs []string
		}
		var inners []inner
		for _, bs := range rs.Body.List {
			rs2, ok := bs.(*ast.RangeStmt)
			if !ok {
				continue
			}
			ord2 := ordOf(rs2)
			args2, _ := walkArgs(rs2.Body.List)
			if ord2 < 0 || len(args2) == 0 {
				continue
			}
			// per-element fact, with the outer element written as SRC[k]
			src2k := g.substIdents(rs2.X, replK)
			replK2 := cp(replK)
			bindElem(rs2, replK2, src2k, "k2")
			// inside the inner loop the outer element is the loop variable itself
			src2in := g.substIdents(rs2.X, b)
			replIn := cp(b)
			bindElem(rs2, replIn, src2in, "k2")
			var innerInvs []string
			for _, a := range args2 {
				atK := g.substIdents(a, replK2)
				atIn := g.substIdents(a, replIn)
				if atK == "" || atIn == "" || src2k == "" || src2in == "" {
					continue
				}
				own = append(own, fmt.Sprintf("forall(0, %s, func(k int) bool { return forall(0, len(%s), func(k2 int) bool { return %s == nil || visited(%s) }) })", idx, src2k, atK, atK))
				full = append(full, fmt.Sprintf("forall(0, len(%s), func(k int) bool { return forall(0, len(%s), func(k2 int) bool { return %s == nil || visited(%s) }) })", src, src2k, atK, atK))
				innerInvs = append(innerInvs, fmt.Sprintf("forall(0, rangeIndex(%d), func(k2 int) bool { return %s == nil || visited(%s) })", ord2, atIn, atIn))
			}
			inners = append(inners, inner{rs2, ord2, innerInvs})
		}
		g.p("  loop %d", ord)
		for _, d := range done {
			g.p("    invariant %s", d)
		}
		if plain && len(inners) == 0 {
			g.p("    invariant nvisits() == entry(nvisits()) + %s", idx)
		}
		for _, o := range own {
			g.p("    invariant %s", o)
		}
		for _, in := range inners {
			g.p("  loop %d", in.ord)
			for _, d := range done {
				g.p("    invariant %s", d)
			}
			for _, o := range own {
				g.p("    invariant %s", o)
			}
			for _, o := range in.invs {
				g.p("    invariant %s", o)
			}
		}
		done = append(done, full...)
	}
}
