package main

import (
	"fmt"
	"golang.org/x/tools/go/packages"
)

func main() {
	cfg := &packages.Config{Mode: packages.LoadAllSyntax &^ packages.NeedDeps | packages.NeedImports | packages.NeedDeps, Dir: "/repo", BuildFlags: []string{"-tags=verif"}}
	pkgs, err := packages.Load(cfg, "./native")
	fmt.Println(len(pkgs), err)
}
