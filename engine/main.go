package main

import (
	"flag"
	"fmt"
	"os"
	"sort"
	"strings"
	"time"
)

var repoDir = "/repo"
var verifDir = "/verif"

func main() {
	if len(os.Args) < 2 {
		fmt.Fprintln(os.Stderr, "usage: govc check|units|unit|lock|replay ...")
		os.Exit(2)
	}
	if d := os.Getenv("GOVC_REPO"); d != "" {
		repoDir = d
	}
	switch os.Args[1] {
	case "unit":
		cmdUnit(os.Args[2:])
	case "check":
		os.Exit(cmdCheck(os.Args[2:]))
	case "lock":
		os.Exit(cmdLock(os.Args[2:]))
	case "units":
		cmdUnits(os.Args[2:])
	case "mapranges":
		cmdMapRanges(os.Args[2:])
	case "replay":
		os.Exit(cmdReplay(os.Args[2:]))
	case "selftest":
		os.Exit(cmdSelftest(os.Args[2:]))
	default:
		fmt.Fprintln(os.Stderr, "unknown command", os.Args[1])
		os.Exit(2)
	}
}

// cmdUnit: developer command — run the units whose name contains the given substring and print every obligation.
func cmdUnit(args []string) {
	fs := flag.NewFlagSet("unit", flag.ExitOnError)
	to := fs.Int("t", 10, "timeout seconds")
	verbose := fs.Bool("v", false, "print goals")
	keep := fs.String("work", "/tmp/govc-work", "work dir")
	all := fs.Bool("all", false, "ask all solvers")
	pkgsFlag := fs.String("pkgs", "", "comma-separated package patterns (default: all targets)")
	claimed := fs.Bool("claimed", false, "solve only the obligations claimed by a property (skip the unclaimed bucket X00)")
	_ = fs.Parse(args)
	if *keep == "/tmp/govc-work" {
		_ = os.RemoveAll(*keep) // query files of earlier developer runs add up to many gigabytes
	}
	var only []string
	if *pkgsFlag != "" {
		only = strings.Split(*pkgsFlag, ",")
	}
	t0 := time.Now()
	w, err := loadWorld(repoDir, only)
	if err != nil {
		fmt.Fprintln(os.Stderr, err)
		os.Exit(2)
	}
	fmt.Printf("loaded in %v\n", time.Since(t0))
	pats := fs.Args()
	var paths []string
	for p := range w.Pkgs {
		paths = append(paths, p)
	}
	sort.Strings(paths)
	for _, p := range paths {
		pk := w.Pkgs[p]
		for _, c := range pk.Contracts {
			full := pkgShort(pk.Path) + "." + c.Name
			match := len(pats) == 0
			for _, pat := range pats {
				if strings.Contains(full, pat) {
					match = true
				}
			}
			if !match {
				continue
			}
			r := runUnit(w, pk, c)
			if *claimed {
				var keep []*Oblig
				for _, o := range r.Obligs {
					if o.Prop != "X00" || o.Canary {
						keep = append(keep, o)
					}
				}
				r.Obligs = keep
			}
			solveUnit(r, solveOpts{timeout: time.Duration(*to) * time.Second, all: *all, workdir: *keep, par: solverPar()})
			fmt.Println(r.summary())
			if r.Err != "" {
				fmt.Println("  UNIT ERROR:", r.Err)
			}
			for _, o := range r.Obligs {
				mark := "ok  "
				if o.Canary {
					if o.Status == "unsat" {
						mark = "VACUOUS"
					} else {
						continue
					}
				} else if o.Status != "unsat" {
					mark = "OPEN"
				}
				fmt.Printf("  %-5s %-8s %-7s %5dms %s  [%s] %s\n", mark, o.Status, o.Solver, o.Ms, o.Name, o.Pos, o.Desc)
				if *verbose && o.Status != "unsat" {
					fmt.Printf("        query: %s\n", o.Query)
					if o.Status == "sat" && len(o.Tried) > 0 {
						fmt.Printf("        model: %s\n", modelSummary(o.Tried[len(o.Tried)-1].Output))
					}
				}
			}
			for _, a := range r.Abstracted {
				fmt.Println("  abstracted:", a)
			}
			for _, a := range r.Notes {
				fmt.Println("  note:", a)
			}
		}
	}
}

func cmdUnits(args []string) {
	w, err := loadWorld(repoDir, nil)
	if err != nil {
		fmt.Fprintln(os.Stderr, err)
		os.Exit(2)
	}
	for _, pk := range w.Pkgs {
		for _, c := range pk.Contracts {
			fmt.Printf("%s.%s props=%v mode=%s\n", pkgShort(pk.Path), c.Name, c.Props, c.Mode)
		}
	}
}

// modelSummary extracts the scalar constants of a z3 model that name program variables.
func modelSummary(out string) string {
	var parts []string
	lines := strings.Split(out, "\n")
	for i := 0; i < len(lines); i++ {
		ln := strings.TrimSpace(lines[i])
		if !strings.HasPrefix(ln, "(define-fun ") {
			continue
		}
		f := strings.Fields(ln)
		if len(f) < 4 || f[2] != "()" {
			continue
		}
		name := f[1]
		keep := false
		for _, p := range []string{"h_", "p_", "in_", "m_", "tag!", "c!", "k!", "idx!", "rsize", "rune"} {
			if strings.HasPrefix(name, p) {
				keep = true
			}
		}
		if !keep || (f[3] != "Int" && f[3] != "Bool") {
			continue
		}
		val := strings.Join(f[4:], " ")
		if len(f) == 4 && i+1 < len(lines) {
			val = strings.TrimSpace(lines[i+1])
		}
		val = strings.TrimSuffix(val, ")")
		parts = append(parts, name+"="+val)
	}
	sort.Strings(parts)
	return strings.Join(parts, " ")
}
