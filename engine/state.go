package main

import (
	"fmt"
	"go/ast"
	"go/token"
	"go/types"
	"sort"
	"strings"
)

type Value struct {
	T   string
	Typ types.Type
}

type synth struct{ name string }

type boundVar struct {
	obj types.Object
	val Value
}

type State struct {
	pc    string
	vars  map[any]Value
	heaps map[string]string
	epoch int
	top   string
	tag   string
}

func (s *State) clone() *State {
	n := &State{pc: s.pc, epoch: s.epoch, top: s.top}
	n.vars = make(map[any]Value, len(s.vars))
	for k, v := range s.vars {
		n.vars[k] = v
	}
	n.heaps = make(map[string]string, len(s.heaps))
	for k, v := range s.heaps {
		n.heaps[k] = v
	}
	return n
}

type Oblig struct {
	Name     string
	Unit     string
	Kind     string
	Prop     string
	Pos      string
	PC       string
	Goal     string
	NAssumes int
	NDecls   int
	Desc     string
	Canary   bool
	// result
	Status  string
	Solver  string
	Ms      int64
	Tried   []solverResult
	Query   string
	IsLocked bool
}

type loopFrame struct {
	label     string
	breaks    []*State
	continues []*State
	isLoop    bool
}

type frame struct {
	fn       string
	results  []any
	restyps  []types.Type
	returns  []*State
	loops    []*loopFrame
	parent   *frame
	contract *Contract
	decl     *ast.FuncDecl
}

type Engine struct {
	recvWB *recvWriteBack // set by methodRecv for the call being evaluated (copy-out of a value-embedded receiver)
	w   *World
	pk  *Pkg
	c   *Contract
	bv  bool

	decls      []string
	declared   map[string]bool
	sortDecls  []string
	tidTypes   map[int]types.Type
	calleePost   int
	calleeGhosts map[string]Value
	ifaceTypes map[string]types.Type
	sortDone   map[string]string
	sortByType map[string]string
	assumes    []string
	obligs     []*Oblig
	cnt        map[string]int
	nfresh     int
	nepoch     int
	inputs     map[any]Value
	entry      *State
	abstracted []string
	stubsUsed  map[string]bool
	calleeContracts map[string]bool
	inlined    map[string]bool
	spec       int // >0: spec mode (no obligations, no side assumptions)
	bound      int // >0: under a binder (no fresh constants allowed to depend on state)
	inlineStack []string
	prefix     string
	fr         *frame
	boxed      map[types.Object]bool
	tids       map[string]int
	axioms     []string
	notes      []string
	curPos     token.Pos
	armBase    int
	b64enc     map[string]bool
	mapKeyFn   map[int]string
	loopOrd    map[ast.Stmt]int
	rangeAlias map[types.Object]string // range key var -> hidden index term (for invariants)
	unsupported []string
	closureBind map[types.Object]*ast.FuncLit
	specFuncsUsed map[string]*types.Func
	sidLits    map[string]string
	tables     map[*types.Var]string
	errGlobals []string
	specAxioms []string
	ghosts     map[string]*synth
	useStreq   bool
	loopEntry  []*State
	boundVars  []boundVar
}

func newEngine(w *World, pk *Pkg, c *Contract) *Engine {
	e := &Engine{w: w, pk: pk, c: c, declared: map[string]bool{}, sortDone: map[string]string{}, sortByType: map[string]string{},
		cnt: map[string]int{}, inputs: map[any]Value{}, stubsUsed: map[string]bool{}, calleeContracts: map[string]bool{}, inlined: map[string]bool{},
		boxed: map[types.Object]bool{}, tids: map[string]int{}, loopOrd: map[ast.Stmt]int{},
		closureBind: map[types.Object]*ast.FuncLit{}, specFuncsUsed: map[string]*types.Func{}, tables: map[*types.Var]string{}, ghosts: map[string]*synth{}}
	e.bv = c.Mode == "bv"
	return e
}

func (e *Engine) pos(p token.Pos) string {
	if !p.IsValid() {
		return ""
	}
	ps := e.pk.Fset.Position(p)
	return fmt.Sprintf("%s:%d", strings.TrimPrefix(ps.Filename, "/repo/"), ps.Line)
}

func (e *Engine) declare(name, sort string) {
	if e.declared[name] {
		return
	}
	e.declared[name] = true
	e.decls = append(e.decls, fmt.Sprintf("(declare-fun %s () %s)", name, sort))
}

func (e *Engine) declareFun(name string, args []string, ret string) {
	if e.declared[name] {
		return
	}
	e.declared[name] = true
	e.decls = append(e.decls, fmt.Sprintf("(declare-fun %s (%s) %s)", name, strings.Join(args, " "), ret))
}

func mangle(s string) string {
	var b strings.Builder
	for _, c := range s {
		switch {
		case c >= 'a' && c <= 'z', c >= 'A' && c <= 'Z', c >= '0' && c <= '9', c == '_':
			b.WriteRune(c)
		case c == '.' || c == '/':
			b.WriteByte('_')
		case c == '*':
			b.WriteString("P")
		case c == '[' || c == ']':
			b.WriteString("A")
		default:
			b.WriteString("x")
		}
	}
	return b.String()
}

func (e *Engine) fresh(hint, sort string) string {
	e.nfresh++
	n := fmt.Sprintf("%s!%d", mangle(hint), e.nfresh)
	e.declare(n, sort)
	return n
}

func (e *Engine) assume(pc, fact string) {
	if fact == "true" {
		return
	}
	if e.bound > 0 {
		return // never record facts that may mention bound variables
	}
	e.assumes = append(e.assumes, implies(pc, fact))
}

func (e *Engine) note(format string, a ...any) {
	e.notes = append(e.notes, fmt.Sprintf(format, a...))
}

func (e *Engine) abstract(what string, p token.Pos) {
	s := fmt.Sprintf("%s @ %s", what, e.pos(p))
	for _, x := range e.abstracted {
		if x == s {
			return
		}
	}
	e.abstracted = append(e.abstracted, s)
}

// oblige records a proof obligation.
func (e *Engine) oblige(st *State, kind, goal string, p token.Pos, desc string) {
	if e.spec > 0 || st == nil {
		return
	}
	if goal == "true" {
		// still count trivially true obligations? no: skip, they carry no information
		return
	}
	what := strings.TrimSpace(strings.TrimPrefix(desc, kind))
	if len(what) > 60 {
		what = what[:60]
	}
	k := e.prefix + kind
	if what != "" {
		k = e.prefix + kind + "[" + strings.ReplaceAll(what, " ", "") + "]"
	}
	n := e.cnt[k]
	e.cnt[k] = n + 1
	prop := e.c.primary()
	for _, cl := range e.c.Claims {
		// `claim[Cxx] TEXT`: a safety obligation whose name contains TEXT is claimed by property Cxx although the
		// unit's other safety obligations are not (the unit's first property is the unclaimed bucket)
		if strings.Contains(k, cl.Text) {
			prop = cl.Prop
		}
	}
	o := &Oblig{Name: fmt.Sprintf("%s.%s/%s#%d", pkgShort(e.pk.Path), e.c.Name, k, n), Unit: e.c.Name, Kind: kind, Pos: e.pos(p),
		PC: st.pc, Goal: goal, NAssumes: len(e.assumes), NDecls: len(e.decls), Desc: desc, Prop: prop}
	e.obligs = append(e.obligs, o)
}

func pkgShort(path string) string {
	if path == modPath {
		return "scriggo"
	}
	i := strings.LastIndex(path, "/")
	return path[i+1:]
}

// ---------------- sorts ----------------

func (e *Engine) sortOf(t types.Type) string {
	t = types.Unalias(t)
	if e.isBseqType(t) {
		e.declareWriterTheory()
		return "BSeq"
	}
	switch u := t.Underlying().(type) {
	case *types.Basic:
		switch {
		case u.Info()&types.IsBoolean != 0:
			return "Bool"
		case u.Info()&types.IsInteger != 0:
			if e.bv {
				return fmt.Sprintf("(_ BitVec %d)", intWidth(u))
			}
			return "Int"
		case u.Info()&types.IsString != 0:
			return "Str"
		case u.Info()&(types.IsFloat|types.IsComplex) != 0:
			return "Flt"
		case u.Kind() == types.UnsafePointer:
			return e.isort()
		case u.Kind() == types.UntypedNil:
			return e.isort()
		}
		return e.isort()
	case *types.Pointer, *types.Map, *types.Chan, *types.Signature:
		return e.isort() // references are of the index sort (Int, or 64-bit vectors in bv mode)
	case *types.Slice:
		return "Slc"
	case *types.Array:
		ix := "Int"
		if e.bv {
			ix = "(_ BitVec 64)"
		}
		return fmt.Sprintf("(Array %s %s)", ix, e.sortOf(u.Elem()))
	case *types.Struct:
		return e.structSort(t, u)
	case *types.Interface:
		return "Ifc"
	case *types.Tuple:
		return "Int"
	}
	return "Int"
}

func (e *Engine) structSort(t types.Type, u *types.Struct) string {
	key := types.TypeString(t, nil)
	if s, ok := e.sortByType[key]; ok {
		return s
	}
	name := "S_" + mangle(key)
	if len(name) > 60 {
		name = fmt.Sprintf("S_anon%d", len(e.sortByType))
	}
	for _, used := range e.sortByType {
		if used == name {
			name = fmt.Sprintf("%s_%d", name, len(e.sortByType))
		}
	}
	e.sortByType[key] = name
	var fields []string
	for i := 0; i < u.NumFields(); i++ {
		f := u.Field(i)
		fields = append(fields, fmt.Sprintf("(%s %s)", fieldAcc(name, f.Name(), i), e.sortOf(f.Type())))
	}
	if len(fields) == 0 {
		e.sortDecls = append(e.sortDecls, fmt.Sprintf("(declare-datatypes ((%s 0)) (((mk-%s))))", name, name))
	} else {
		e.sortDecls = append(e.sortDecls, fmt.Sprintf("(declare-datatypes ((%s 0)) (((mk-%s %s))))", name, name, strings.Join(fields, " ")))
	}
	return name
}

func fieldAcc(sortName, field string, i int) string {
	if field == "_" {
		field = fmt.Sprintf("blank%d", i)
	}
	return fmt.Sprintf("%s.%s", sortName, field)
}

func intWidth(b *types.Basic) int {
	switch b.Kind() {
	case types.Int8, types.Uint8:
		return 8
	case types.Int16, types.Uint16:
		return 16
	case types.Int32, types.Uint32:
		return 32
	}
	return 64
}

func isUnsigned(b *types.Basic) bool { return b.Info()&types.IsUnsigned != 0 }

func basicOf(t types.Type) *types.Basic {
	b, _ := types.Unalias(t).Underlying().(*types.Basic)
	return b
}

func isInt(t types.Type) bool {
	b := basicOf(t)
	return b != nil && b.Info()&types.IsInteger != 0
}
func isString(t types.Type) bool {
	b := basicOf(t)
	return b != nil && b.Info()&types.IsString != 0
}
func isBool(t types.Type) bool {
	b := basicOf(t)
	return b != nil && b.Info()&types.IsBoolean != 0
}
func isFloat(t types.Type) bool {
	b := basicOf(t)
	return b != nil && b.Info()&(types.IsFloat|types.IsComplex) != 0
}

var pow2 = func() map[int]string {
	m := map[int]string{}
	m[7] = "128"
	m[8] = "256"
	m[15] = "32768"
	m[16] = "65536"
	m[31] = "2147483648"
	m[32] = "4294967296"
	m[63] = "9223372036854775808"
	m[64] = "18446744073709551616"
	return m
}()

func intRange(b *types.Basic) (lo, hi string) {
	w := intWidth(b)
	if b.Kind() == types.UntypedInt || b.Kind() == types.UntypedRune {
		return "", ""
	}
	if isUnsigned(b) {
		return "0", fmt.Sprintf("(- %s 1)", pow2[w])
	}
	return fmt.Sprintf("(- %s)", pow2[w-1]), fmt.Sprintf("(- %s 1)", pow2[w-1])
}

// rangeFact returns the well-typedness fact for a term of Go type t (int mode).
func (e *Engine) rangeFact(term string, t types.Type) string {
	t = types.Unalias(t)
	switch u := t.Underlying().(type) {
	case *types.Basic:
		if u.Info()&types.IsInteger != 0 {
			if e.bv {
				return "true"
			}
			lo, hi := intRange(u)
			if lo == "" {
				return "true"
			}
			return and(sx("<=", lo, term), sx("<=", term, hi))
		}
		if u.Info()&types.IsString != 0 {
			return and(e.le(e.izero(), sx("s_len", term)), e.le(sx("s_len", term), e.ilit(maxLen)), e.le(e.izero(), sx("s_off", term)), e.le(sx("s_off", term), e.ilit(maxLen)))
		}
	case *types.Slice:
		return and(e.le(e.izero(), sx("l_len", term)), e.le(sx("l_len", term), sx("l_cap", term)), e.le(sx("l_cap", term), e.ilit(maxLen)),
			e.le(e.izero(), sx("l_off", term)), e.le(sx("l_off", term), e.ilit(maxLen)), e.le(e.izero(), sx("l_ref", term)),
			implies(eq(sx("l_ref", term), e.izero()), eq(sx("l_cap", term), e.izero())))
	case *types.Pointer, *types.Map, *types.Chan:
		return e.le(e.izero(), term)
	case *types.Interface:
		// type ids and payload ids are non-negative; the nil interface is (0, 0)
		if e.c != nil && e.c.Opts["typednil"] != "" {
			// assumed of the data (opt typednil): an interface value held in memory or passed in never wraps a nil
			// pointer; such values arise only from conversions in the code under verification
			e.declareFun("tnil", []string{"Ifc"}, "Bool")
			return and(sx("<=", "0", sx("i_tid", term)), sx("<=", "0", sx("i_val", term)), not(sx("tnil", term)))
		}
		return and(sx("<=", "0", sx("i_tid", term)), sx("<=", "0", sx("i_val", term)))
	case *types.Struct:
		var fs []string
		sn := e.sortOf(t)
		for i := 0; i < u.NumFields(); i++ {
			f := u.Field(i)
			switch f.Type().Underlying().(type) {
			case *types.Basic, *types.Slice, *types.Pointer, *types.Map, *types.Interface:
				fs = append(fs, e.rangeFact(sx(fieldAcc(sn, f.Name(), i), term), f.Type()))
			}
		}
		return and(fs...)
	}
	return "true"
}

// int literal / comparisons abstracted over the integer mode (indices are always Int in int mode, BV64 in bv mode)
func (e *Engine) izero() string { return e.ilit("0") }
func (e *Engine) ilit(dec string) string {
	if e.bv {
		return bvLit(dec, 64)
	}
	return bigStr(dec)
}
func (e *Engine) le(a, b string) string {
	if e.bv {
		return sx("bvsle", a, b)
	}
	return sx("<=", a, b)
}
func (e *Engine) lt(a, b string) string {
	if e.bv {
		return sx("bvslt", a, b)
	}
	return sx("<", a, b)
}
func (e *Engine) add(a, b string) string {
	if e.bv {
		return sx("bvadd", a, b)
	}
	if b == "0" {
		return a
	}
	if a == "0" {
		return b
	}
	return sx("+", a, b)
}
func (e *Engine) sub(a, b string) string {
	if e.bv {
		return sx("bvsub", a, b)
	}
	if b == "0" {
		return a
	}
	return sx("-", a, b)
}

// ---------------- heaps ----------------

func (e *Engine) heapSort(name string) string {
	return e.sortDone["heap:"+name]
}

func (e *Engine) heapGet(st *State, name, sort string) string {
	if t, ok := st.heaps[name]; ok {
		return t
	}
	e.sortDone["heap:"+name] = sort
	ep := fmt.Sprint(st.epoch)
	if strings.HasPrefix(name, "W_") || strings.HasPrefix(name, "GH_") || e.stableHeap(name) {
		// the abstract writer's ghost heaps survive unknown calls (see havocAll): one that has not been named on this
		// path yet still has its entry value
		ep = "0"
	}
	if m, ok := st.heaps["!epoch:"+name]; ok {
		ep = m
	}
	n := fmt.Sprintf("%s!e%s", name, ep)
	e.declare(n, sort)
	st.heaps[name] = n // remember the lazily named heap so that merges of different epochs keep what is known about it
	return n
}

func (e *Engine) heapSet(st *State, name, sort, term string) {
	e.sortDone["heap:"+name] = sort
	st.heaps[name] = e.nameTerm(name, sort, term)
}

// nameTerm introduces a definition for long terms to keep queries linear.
func (e *Engine) nameTerm(hint, sort, term string) string {
	if len(term) < 160 || e.bound > 0 {
		return term
	}
	n := e.fresh(hint, sort)
	e.assumes = append(e.assumes, eq(n, term))
	return n
}

func (e *Engine) havocAll(st *State) {
	// the ghost state of the abstract writer is changed only by writes the analysed code performs itself
	// (assumption, listed: code reached through unknown calls does not write to the output writer)
	keep := map[string]string{}
	for g, srt := range map[string]string{"W_out": e.heapSort("W_out"), "W_failed": "(Array Int Bool)", "W_err": "(Array Int Ifc)"} {
		if srt != "" {
			keep[g] = e.heapGet(st, g, srt)
		}
	}
	// `opt stable T1 T2`: fields of the (package-private) struct types listed are not reachable by unknown code
	// (assumption, listed in the evidence)
	if e.c != nil {
		for _, tn := range strings.Fields(e.c.Opts["stable"]) {
			pfx := "F_" + mangle(e.c.Pkg+"."+tn) + "_"
			if strings.Contains(tn, ".") {
				pfx = "F_" + mangle(tn) + "_" // fully qualified type of another package
			}
			for k := range e.sortDone {
				if name, ok := strings.CutPrefix(k, "heap:"); ok && strings.HasPrefix(name, pfx) {
					keep[name] = e.heapGet(st, name, e.sortDone[k])
				}
			}
			e.stubsUsed["fields of the package-private type "+tn+" are not modified by code reached through interface methods or function values (opt stable)"] = true
		}
	}
	for g := range st.heaps {
		// activation-local ghost state (ghost-visit log) is not reachable by any code
		if strings.HasPrefix(g, "GH_") {
			keep[g] = st.heaps[g]
		}
	}
	e.nepoch++
	st.epoch = e.nepoch
	st.heaps = keep
	nt := e.fresh("top", e.isort())
	e.assume("true", e.le(st.top, nt))
	st.top = nt
}

func (e *Engine) isort() string {
	if e.bv {
		return "(_ BitVec 64)"
	}
	return "Int"
}

func (e *Engine) havocHeap(st *State, name string) {
	sort := e.heapSort(name)
	if sort == "" {
		// never touched so far: bump via a private epoch for this name
		e.nepoch++
		delete(st.heaps, name)
		st.heaps["!epoch:"+name] = fmt.Sprint(e.nepoch)
		return
	}
	st.heaps[name] = e.fresh(name, sort)
}

func elemHeapName(elem types.Type) string { return "HE_" + mangle(types.TypeString(elem, nil)) }
func ptrHeapName(elem types.Type) string  { return "HP_" + mangle(types.TypeString(elem, nil)) }
// structCanon maps an underlying struct to the name of the first named type seen with it, so that two named types
// declared one from the other (`type filesFileInfo filesFile`, converted through pointers) share their field heaps.
var structCanon = map[*types.Struct]string{}

func fieldHeapName(st types.Type, field string) string {
	name := types.TypeString(st, nil)
	if su, ok := types.Unalias(st).Underlying().(*types.Struct); ok {
		if c, ok := structCanon[su]; ok {
			name = c
		} else {
			structCanon[su] = name
		}
	}
	return "F_" + mangle(name) + "_" + field
}

func (e *Engine) arrSort(elemSort string) string {
	return fmt.Sprintf("(Array %s %s)", e.isort(), elemSort)
}

// alloc returns a fresh reference.
func (e *Engine) alloc(st *State) string {
	r := e.add(st.top, e.ilit("1"))
	if e.bound > 0 {
		return r
	}
	n := e.fresh("ref", e.isort())
	e.assumes = append(e.assumes, eq(n, r))
	st.top = n
	return n
}

// ---------------- merging ----------------

func (e *Engine) merge(states []*State) *State {
	var live []*State
	for _, s := range states {
		if s != nil && s.pc != "false" {
			live = append(live, s)
		}
	}
	if len(live) == 0 {
		return nil
	}
	if len(live) == 1 {
		return live[0]
	}
	out := &State{vars: map[any]Value{}, heaps: map[string]string{}}
	// path condition
	var pcs []string
	for _, s := range live {
		pcs = append(pcs, s.pc)
	}
	pc := or(pcs...)
	if len(pc) > 120 && e.bound == 0 {
		b := e.fresh("pc", "Bool")
		e.assumes = append(e.assumes, eq(b, pc))
		pc = b
	}
	out.pc = pc
	// vars
	keys := map[any]bool{}
	for _, s := range live {
		for k := range s.vars {
			keys[k] = true
		}
	}
	// deterministic order
	type kv struct {
		k any
		n string
	}
	var ks []kv
	for k := range keys {
		ks = append(ks, kv{k, keyName(k)})
	}
	sort.Slice(ks, func(i, j int) bool { return ks[i].n < ks[j].n })
	for _, x := range ks {
		k := x.k
		var vals []Value
		ok := true
		for _, s := range live {
			v, has := s.vars[k]
			if !has {
				if iv, has2 := e.inputs[k]; has2 {
					v = iv
				} else if sk, isSynth := k.(*synth); isSynth && strings.HasPrefix(sk.name, "callres:") {
					// ghost record of a tracked call that did not happen on this path: the ":called" flag is false there;
					// the recorded values are unspecified on such a path (the value of a sibling path is reused, which keeps
					// the terms of the path that did call intact) - contracts guard them with called("f") or a path condition
					var sample Value
					for _, o := range live {
						if ov, ok2 := o.vars[k]; ok2 {
							sample = ov
							break
						}
					}
					if strings.HasSuffix(sk.name, ":called") {
						v = Value{"false", sample.Typ}
					} else {
						v = sample
					}
				} else {
					ok = false
					break
				}
			}
			vals = append(vals, v)
		}
		if !ok {
			continue
		}
		same := true
		for _, v := range vals[1:] {
			if v.T != vals[0].T {
				same = false
			}
		}
		if same {
			out.vars[k] = vals[0]
			continue
		}
		if e.bound > 0 {
			// under a binder no fresh constants: nested if-then-else over the (mutually exclusive) path conditions
			t := vals[len(vals)-1].T
			for i := len(vals) - 2; i >= 0; i-- {
				t = ite(live[i].pc, vals[i].T, t)
			}
			out.vars[k] = Value{t, vals[0].Typ}
			continue
		}
		n := e.fresh("m_"+x.n, e.sortOf(vals[0].Typ))
		for i, s := range live {
			e.assumes = append(e.assumes, implies(s.pc, eq(n, vals[i].T)))
		}
		out.vars[k] = Value{n, vals[0].Typ}
	}
	// heaps
	sameEpoch := true
	for _, s := range live[1:] {
		if s.epoch != live[0].epoch {
			sameEpoch = false
		}
	}
	if sameEpoch {
		out.epoch = live[0].epoch
	} else {
		e.nepoch++
		out.epoch = e.nepoch
	}
	hn := map[string]bool{}
	for _, s := range live {
		for k := range s.heaps {
			hn[k] = true
		}
	}
	if !sameEpoch {
		// the merged state gets a new epoch: every heap the unit has touched so far must be carried over
		// explicitly, or what is known about it in the branches would be forgotten
		for k := range e.sortDone {
			if name, ok := strings.CutPrefix(k, "heap:"); ok {
				hn[name] = true
			}
		}
	}
	var hs []string
	for k := range hn {
		hs = append(hs, k)
	}
	sort.Strings(hs)
	for _, name := range hs {
		if strings.HasPrefix(name, "!epoch:") {
			same := true
			for _, s := range live[1:] {
				if s.heaps[name] != live[0].heaps[name] {
					same = false
				}
			}
			if same {
				out.heaps[name] = live[0].heaps[name]
			} else {
				e.nepoch++
				out.heaps[name] = fmt.Sprint(e.nepoch)
			}
			continue
		}
		srt := e.heapSort(name)
		var vals []string
		for _, s := range live {
			vals = append(vals, e.heapGet(s, name, srt))
		}
		same := true
		for _, v := range vals[1:] {
			if v != vals[0] {
				same = false
			}
		}
		if same {
			out.heaps[name] = vals[0]
			continue
		}
		if e.bound > 0 {
			// under a binder no fresh constants: nested if-then-else over the (mutually exclusive) path conditions
			t := vals[len(vals)-1]
			for i := len(vals) - 2; i >= 0; i-- {
				t = ite(live[i].pc, vals[i], t)
			}
			out.heaps[name] = t
			continue
		}
		n := e.fresh(name, srt)
		for i, s := range live {
			e.assumes = append(e.assumes, implies(s.pc, eq(n, vals[i])))
		}
		out.heaps[name] = n
	}
	// top
	same := true
	for _, s := range live[1:] {
		if s.top != live[0].top {
			same = false
		}
	}
	if same {
		out.top = live[0].top
	} else if e.bound > 0 {
		t := live[len(live)-1].top
		for i := len(live) - 2; i >= 0; i-- {
			t = ite(live[i].pc, live[i].top, t)
		}
		out.top = t
	} else {
		n := e.fresh("top", e.isort())
		for _, s := range live {
			e.assumes = append(e.assumes, implies(s.pc, eq(n, s.top)))
		}
		out.top = n
	}
	return out
}

func keyName(k any) string {
	switch x := k.(type) {
	case types.Object:
		return fmt.Sprintf("%s_%d", x.Name(), x.Pos())
	case *synth:
		return x.name
	}
	return fmt.Sprintf("%v", k)
}

// stableHeap: the heap holds a field of a struct type listed in `opt stable` (not reachable by unknown code): a heap of
// that kind that has not been named on this path yet still has its entry value after an unknown call.
func (e *Engine) stableHeap(name string) bool {
	if e.c == nil || e.c.Opts["stable"] == "" || !strings.HasPrefix(name, "F_") {
		return false
	}
	for _, tn := range strings.Fields(e.c.Opts["stable"]) {
		pfx := "F_" + mangle(e.c.Pkg+"."+tn) + "_"
		if strings.Contains(tn, ".") {
			pfx = "F_" + mangle(tn) + "_"
		}
		if strings.HasPrefix(name, pfx) {
			return true
		}
	}
	return false
}
