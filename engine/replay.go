package main

import (
	"encoding/json"
	"fmt"
	"go/ast"
	"go/types"
	"os"
	"os/exec"
	"path/filepath"
	"regexp"
	"strconv"
	"strings"
	"time"
)

// Replay (DESIGN 4.3). When a solver answers `sat` for a failed obligation of a unit whose inputs are all of plain
// types (integers, booleans, strings, byte slices), the model is read back with get-value, turned into Go literals,
// and the real function is called on them through an in-package test injected with `go test -overlay` (nothing is
// written to the repository). The replay confirms the violation when
//   - the obligation is a safety one (index, slice, nil, division, conversion...) and the call panics, or
//   - the obligation is a postcondition and the postcondition, read as a Go expression over the parameters and
//     `result`, evaluates to false after the call.
// Anything else (abstract writers, heap-shaped inputs, quantified goals that only come back `unknown`) is reported
// without a failing input.

type replayInput struct {
	name string
	typ  types.Type
	term string
	lit  string // Go literal, filled from the model
}

var numRe = regexp.MustCompile(`^\(?\s*(-?)\s*\(?(-)?\s*([0-9]+)\)?\s*\)?$`)

func parseSMTInt(s string) (int64, bool) {
	s = strings.TrimSpace(s)
	neg := false
	if strings.HasPrefix(s, "(-") {
		neg = true
		s = strings.TrimSuffix(strings.TrimSpace(s[2:]), ")")
		s = strings.TrimSpace(s)
	}
	if strings.HasPrefix(s, "#x") {
		u, err := strconv.ParseUint(s[2:], 16, 64)
		return int64(u), err == nil
	}
	if strings.HasPrefix(s, "#b") {
		u, err := strconv.ParseUint(s[2:], 2, 64)
		return int64(u), err == nil
	}
	v, err := strconv.ParseInt(s, 10, 64)
	if err != nil {
		return 0, false
	}
	if neg {
		v = -v
	}
	return v, true
}

// getValues runs the obligation's query with (get-value ...) for the given terms and returns their values.
func getValues(query, solver string, terms []string) ([]string, string) {
	if len(terms) == 0 {
		return nil, ""
	}
	if strings.HasPrefix(query, "/") && !strings.Contains(query, "\n") {
		data, err := os.ReadFile(query)
		if err != nil {
			return nil, "query file not available: " + err.Error()
		}
		query = string(data)
	}
	q := strings.Replace(query, "(get-model)\n", "", 1)
	var b strings.Builder
	b.WriteString(q)
	for _, t := range terms {
		b.WriteString("(get-value (" + t + "))\n")
	}
	tmp, err := os.MkdirTemp("", "govc-model")
	if err != nil {
		return nil, err.Error()
	}
	defer os.RemoveAll(tmp)
	f := filepath.Join(tmp, "q.smt2")
	_ = os.WriteFile(f, []byte(b.String()), 0o644)
	r := runSolver(solver, f, 30*time.Second)
	lines := strings.Split(strings.TrimSpace(r.Output), "\n")
	if len(lines) == 0 || strings.TrimSpace(lines[0]) != "sat" {
		return nil, "model query did not return sat: " + r.Output
	}
	// each get-value answer is one s-expression "((term value))", possibly spread over several lines
	rest := strings.Join(lines[1:], " ")
	var vals []string
	for _, t := range terms {
		i := strings.Index(rest, "((")
		if i < 0 {
			return nil, "cannot parse model values: " + r.Output
		}
		depth, j := 0, i
		for ; j < len(rest); j++ {
			if rest[j] == '(' {
				depth++
			} else if rest[j] == ')' {
				depth--
				if depth == 0 {
					break
				}
			}
		}
		ans := rest[i : j+1]
		rest = rest[j+1:]
		inner := strings.TrimSpace(ans[2 : len(ans)-2])
		// inner = "<term> <value>": the value is what follows the echoed term
		tt := strings.Join(strings.Fields(t), " ")
		in := strings.Join(strings.Fields(inner), " ")
		if strings.HasPrefix(in, tt) {
			vals = append(vals, strings.TrimSpace(in[len(tt):]))
		} else {
			k := strings.LastIndex(in, " ")
			vals = append(vals, strings.TrimSpace(in[k+1:]))
		}
	}
	return vals, ""
}

func replayable(t types.Type) string {
	switch u := types.Unalias(t).Underlying().(type) {
	case *types.Basic:
		switch {
		case u.Info()&types.IsInteger != 0:
			return "int"
		case u.Info()&types.IsBoolean != 0:
			return "bool"
		case u.Info()&types.IsString != 0:
			return "string"
		}
	case *types.Slice:
		if b, ok := types.Unalias(u.Elem()).Underlying().(*types.Basic); ok && b.Kind() == types.Uint8 {
			return "bytes"
		}
	}
	return ""
}

// tryReplay attempts to turn the solver's model into a concrete input and run it against the real code.
func tryReplay(w *World, pr *propRun, o *Oblig, rp map[string]any) bool {
	if o.Status != "sat" {
		rp["replay"] = "no model: the solver did not answer sat (" + o.Status + ")"
		return false
	}
	var u *UnitResult
	for _, r := range pr.Units {
		if r.Contract != nil && r.Contract.Name == o.Unit && strings.HasPrefix(o.Name, r.Name+"/") {
			u = r
		}
	}
	if u == nil || u.engine == nil || u.Contract == nil || u.Contract.Clause != nil || u.Contract.Decl == nil {
		rp["replay"] = "not attempted: the unit is a clause of a larger function"
		return false
	}
	e, decl := u.engine, u.Contract.Decl
	if e.bv {
		// bit-vector terms print as #x..., handled by parseSMTInt
	}
	pk := w.Pkgs[u.Pkg]
	if pk == nil || decl.Recv != nil {
		rp["replay"] = "not attempted: method receivers are not reconstructed from models"
		return false
	}
	var ins []*replayInput
	for _, f := range decl.Type.Params.List {
		for _, id := range f.Names {
			obj := pk.Info.Defs[id]
			if obj == nil || id.Name == "_" {
				rp["replay"] = "not attempted: unnamed parameter"
				return false
			}
			v, ok := e.inputs[obj]
			if !ok || replayable(obj.Type()) == "" {
				rp["replay"] = fmt.Sprintf("not attempted: parameter %s of type %s is not reconstructed from models", id.Name, types.TypeString(obj.Type(), nil))
				return false
			}
			ins = append(ins, &replayInput{name: id.Name, typ: obj.Type(), term: v.T})
		}
	}
	solver := o.Solver
	if solver == "" {
		solver = "z3-new"
	}
	qual := func(p *types.Package) string { return "" }
	// phase 1: scalars, lengths
	var terms []string
	for _, in := range ins {
		switch replayable(in.typ) {
		case "int", "bool":
			terms = append(terms, in.term)
		case "string":
			terms = append(terms, sx("s_len", in.term))
		case "bytes":
			terms = append(terms, sx("l_len", in.term))
		}
	}
	// prefer a small model: first ask with every string at most 64 bytes long, then without the bound
	query := o.Query
	if strings.HasPrefix(query, "/") && !strings.Contains(query, "\n") {
		if data, err := os.ReadFile(query); err == nil {
			query = string(data)
		}
	}
	var bound strings.Builder
	for _, in := range ins {
		if replayable(in.typ) == "string" {
			fmt.Fprintf(&bound, "(assert (<= (s_len %s) 64))\n", in.term)
		}
		if replayable(in.typ) == "bytes" {
			fmt.Fprintf(&bound, "(assert (<= (l_len %s) 64))\n", in.term)
		}
	}
	small := strings.Replace(query, "(check-sat)\n", bound.String()+"(check-sat)\n", 1)
	vals, errs := getValues(small, solver, terms)
	if errs == "" {
		query = small
	} else {
		vals, errs = getValues(query, solver, terms)
	}
	if errs != "" {
		rp["replay"] = errs
		return false
	}
	lens := map[*replayInput]int64{}
	var pinTerms, pinVals []string
	for i, in := range ins {
		switch replayable(in.typ) {
		case "int", "bool":
			pinTerms = append(pinTerms, in.term)
			pinVals = append(pinVals, vals[i])
		}
		switch replayable(in.typ) {
		case "int":
			n, ok := parseSMTInt(vals[i])
			if !ok {
				rp["replay"] = "cannot parse model value " + vals[i]
				return false
			}
			in.lit = fmt.Sprintf("%s(%d)", types.TypeString(in.typ, qual), n)
			if b, ok := types.Unalias(in.typ).Underlying().(*types.Basic); ok && b.Info()&types.IsUnsigned != 0 && e.bv {
				in.lit = fmt.Sprintf("%s(%d)", types.TypeString(in.typ, qual), uint64(n))
			}
		case "bool":
			in.lit = strings.TrimSpace(vals[i])
		default:
			n, ok := parseSMTInt(vals[i])
			if !ok || n < 0 || n > 4096 {
				rp["replay"] = fmt.Sprintf("model length %s of %s is not replayed (limit 4096 bytes)", vals[i], in.name)
				return false
			}
			lens[in] = n
		}
	}
	// phase 2: contents
	terms = nil
	for _, in := range ins {
		n := lens[in]
		switch replayable(in.typ) {
		case "string":
			for k := int64(0); k < n; k++ {
				terms = append(terms, sx("select", sx("s_arr", in.term), sx("+", sx("s_off", in.term), fmt.Sprint(k))))
			}
		case "bytes":
			// the bytes of a []byte parameter live in the element heap as it was at function entry
			hn := elemHeapName(types.Typ[types.Uint8])
			h, ok := e.entry.heaps[hn]
			if !ok {
				h = hn + "!e0"
				if !e.declared[h] {
					// the function never looks at the contents: any bytes will do
					h = ""
				}
			}
			for k := int64(0); k < n; k++ {
				if h == "" {
					terms = append(terms, "0")
				} else {
					terms = append(terms, sx("select", sx("select", h, sx("l_ref", in.term)), sx("+", sx("l_off", in.term), fmt.Sprint(k))))
				}
			}
		}
	}
	// phase 2 must see the same model: pin the scalars and lengths found in phase 1
	var pin strings.Builder
	for _, in := range ins {
		switch replayable(in.typ) {
		case "string":
			fmt.Fprintf(&pin, "(assert (= (s_len %s) %d))\n", in.term, lens[in])
		case "bytes":
			fmt.Fprintf(&pin, "(assert (= (l_len %s) %d))\n", in.term, lens[in])
		}
	}
	for i, t := range pinTerms {
		fmt.Fprintf(&pin, "(assert (= %s %s))\n", t, pinVals[i])
	}
	query = strings.Replace(query, "(check-sat)\n", pin.String()+"(check-sat)\n", 1)
	vals, errs = getValues(query, solver, terms)
	if errs != "" {
		rp["replay"] = errs
		return false
	}
	vi := 0
	for _, in := range ins {
		if k := replayable(in.typ); k != "string" && k != "bytes" {
			continue
		}
		var bs []string
		for k := int64(0); k < lens[in]; k++ {
			n, ok := parseSMTInt(vals[vi])
			vi++
			if !ok {
				n = 0
			}
			bs = append(bs, fmt.Sprint(uint8(n)))
		}
		in.lit = fmt.Sprintf("%s([]byte{%s})", types.TypeString(in.typ, qual), strings.Join(bs, ", "))
		if replayable(in.typ) == "bytes" {
			in.lit = fmt.Sprintf("[]byte{%s}", strings.Join(bs, ", "))
		}
	}
	// the test
	var args, show []string
	for _, in := range ins {
		args = append(args, in.name)
		show = append(show, fmt.Sprintf("%s = %s", in.name, in.lit))
	}
	nres := 0
	if decl.Type.Results != nil {
		for _, f := range decl.Type.Results.List {
			if len(f.Names) == 0 {
				nres++
			} else {
				nres += len(f.Names)
			}
		}
	}
	var resNames []string
	for i := 0; i < nres; i++ {
		if nres == 1 {
			resNames = append(resNames, "result")
		} else {
			resNames = append(resNames, fmt.Sprintf("result%d", i))
		}
	}
	var b strings.Builder
	fmt.Fprintf(&b, "package %s\n\nimport \"testing\"\n\n", pk.Types.Name())
	fmt.Fprintf(&b, "// generated by govc from the model of obligation %s\nfunc TestVerifReplay(t *testing.T) {\n", o.Name)
	for _, in := range ins {
		fmt.Fprintf(&b, "\tvar %s %s = %s\n\t_ = %s\n", in.name, types.TypeString(in.typ, qual), in.lit, in.name)
	}
	postKind := o.Kind == "post"
	fmt.Fprintf(&b, "\tdefer func() {\n\t\tif r := recover(); r != nil {\n\t\t\tt.Fatalf(\"REPLAY-PANIC: %%v\", r)\n\t\t}\n\t}()\n")
	call := fmt.Sprintf("%s(%s)", decl.Name.Name, strings.Join(args, ", "))
	if nres > 0 {
		fmt.Fprintf(&b, "\t%s := %s\n", strings.Join(resNames, ", "), call)
		for _, r := range resNames {
			fmt.Fprintf(&b, "\t_ = %s\n", r)
		}
	} else {
		fmt.Fprintf(&b, "\t%s\n", call)
	}
	if postKind {
		ens := postText(u.Contract, o.Name)
		if ens == "" || !plainGo(ens) {
			rp["replay"] = "not attempted: the postcondition uses specification-only operators"
			return false
		}
		// the contract file is part of the package under -tags verif, so imp() and the spec functions are callable
		fmt.Fprintf(&b, "\tif !(%s) {\n\t\tt.Fatalf(\"REPLAY-POST-FAILED: %%s\", %q)\n\t}\n", rewriteImp(ens), ens)
	}
	b.WriteString("}\n")
	src := b.String()
	out, failed := runOverlayTest(pk.Dir, src)
	rp["input"] = show
	rp["go_test"] = src
	rp["go_test_pkg_dir"] = pk.Dir
	rp["go_test_output"] = out
	marker := "REPLAY-PANIC"
	if postKind {
		marker = "REPLAY-POST-FAILED"
	}
	if failed && strings.Contains(out, marker) {
		rp["replay"] = "confirmed on the real code: " + marker
		return true
	}
	rp["replay"] = "the model did not reproduce on the real code (the obligation still failed; the model may rely on an abstraction)"
	return false
}

// postText returns the source text of the postcondition an obligation name post#i refers to.
func postText(c *Contract, name string) string {
	i := strings.LastIndex(name, "/post#")
	if i < 0 {
		return ""
	}
	n, err := strconv.Atoi(name[i+6:])
	if err != nil || n < 0 || n >= len(c.Ensures) {
		return ""
	}
	return c.Ensures[n].Text
}

// plainGo: the expression uses no specification-only helper.
func plainGo(s string) bool {
	for _, h := range []string{"old(", "wout(", "wfailed(", "werr(", "wonly(", "lastret(", "ncalls(", "called(", "lastInt(", "lastArgInt(", "lastErr(", "lastcb(", "entry(", "rangeIndex(", "rangeWidth(", "wkey("} {
		if strings.Contains(s, h) {
			return false
		}
	}
	return true
}

var _ = ast.Inspect

// runOverlayTest injects testSrc as an in-package test file of pkgDir through `go test -overlay` (the repository is not
// modified) and reports its output and whether the test failed.
func runOverlayTest(pkgDir, testSrc string) (string, bool) {
	tmp, err := os.MkdirTemp("", "govc-replay")
	if err != nil {
		return err.Error(), false
	}
	defer os.RemoveAll(tmp)
	tf := filepath.Join(tmp, "zz_verif_replay_test.go")
	_ = os.WriteFile(tf, []byte(testSrc), 0o644)
	ov := map[string]any{"Replace": map[string]string{filepath.Join(pkgDir, "zz_verif_replay_test.go"): tf}}
	data, _ := json.Marshal(ov)
	of := filepath.Join(tmp, "overlay.json")
	_ = os.WriteFile(of, data, 0o644)
	cmd := exec.Command("go", "test", "-overlay", of, "-tags", "verif", "-vet=off", "-timeout", "60s", "-count=1", "-run", "^TestVerifReplay$", ".")
	cmd.Dir = pkgDir
	cmd.Env = append(os.Environ(), "GOFLAGS=-mod=mod", "GOPROXY=off")
	out, err := cmd.CombinedOutput()
	s := string(out)
	if len(s) > 8000 {
		s = s[:8000]
	}
	return s, err != nil && strings.Contains(s, "FAIL")
}
