package main

import (
	"encoding/json"
	"os"
	"os/exec"
	"path/filepath"
	"strings"
)

// tryReplay attempts to turn the solver's model into a concrete input and run it against the real code.
func tryReplay(w *World, pr *propRun, o *Oblig, rp map[string]any) bool {
	return false
}

// runOverlayTest injects testSrc as an in-package test file of pkgDir through `go test -overlay` (the repository is not
// modified) and reports its output and whether the test failed.
func runOverlayTest(pkgDir, testSrc string) (string, bool) {
	tmp, err := os.MkdirTemp("", "govc-replay")
	if err != nil {
		return err.Error(), false
	}
	defer os.RemoveAll(tmp)
	tf := filepath.Join(tmp, "zz_verif_replay_test.go")
	_ = os.WriteFile(tf, []byte(testSrc), 0o644)
	ov := map[string]any{"Replace": map[string]string{filepath.Join(pkgDir, "zz_verif_replay_test.go"): tf}}
	data, _ := json.Marshal(ov)
	of := filepath.Join(tmp, "overlay.json")
	_ = os.WriteFile(of, data, 0o644)
	cmd := exec.Command("go", "test", "-overlay", of, "-tags", "verif", "-vet=off", "-timeout", "60s", "-count=1", "-run", "^TestVerifReplay$", ".")
	cmd.Dir = pkgDir
	cmd.Env = append(os.Environ(), "GOFLAGS=-mod=mod", "GOPROXY=off")
	out, err := cmd.CombinedOutput()
	s := string(out)
	if len(s) > 8000 {
		s = s[:8000]
	}
	return s, err != nil && strings.Contains(s, "FAIL")
}
