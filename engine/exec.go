package main

import (
	"fmt"
	"go/ast"
	"go/token"
	"go/types"
	"os"
	"sort"
	"strings"
)

// ---------------- statements ----------------

func (e *Engine) execBlock(list []ast.Stmt, st *State) *State {
	for _, s := range list {
		if st == nil {
			return nil
		}
		st = e.exec(s, st)
	}
	return st
}

func (e *Engine) exec(s ast.Stmt, st *State) *State {
	if st == nil || st.pc == "false" {
		return nil
	}
	if e.pk.Injected[s] {
		return st
	}
	switch s := s.(type) {
	case *ast.BlockStmt:
		return e.execBlock(s.List, st)
	case *ast.ExprStmt:
		e.evMulti(s.X, st)
		if e.terminated(s.X) {
			return nil
		}
		return st
	case *ast.EmptyStmt:
		return st
	case *ast.DeclStmt:
		gd := s.Decl.(*ast.GenDecl)
		if gd.Tok == token.VAR {
			for _, sp := range gd.Specs {
				vs := sp.(*ast.ValueSpec)
				if len(vs.Values) == 0 {
					for _, id := range vs.Names {
						obj := e.pk.Info.Defs[id]
						if obj == nil {
							continue
						}
						e.declVar(st, obj, e.zero(obj.Type()))
					}
				} else if len(vs.Values) == len(vs.Names) {
					for i, id := range vs.Names {
						v := e.ev(vs.Values[i], st)
						obj := e.pk.Info.Defs[id]
						if obj == nil || id.Name == "_" {
							continue
						}
						e.declVar(st, obj, e.coerce(v, obj.Type(), st))
					}
				} else {
					vals := e.evMulti(vs.Values[0], st)
					for i, id := range vs.Names {
						obj := e.pk.Info.Defs[id]
						if obj == nil || id.Name == "_" {
							continue
						}
						e.declVar(st, obj, e.coerce(vals[i], obj.Type(), st))
					}
				}
			}
		}
		return st
	case *ast.AssignStmt:
		return e.execAssign(s, st)
	case *ast.IncDecStmt:
		v := e.ev(s.X, st)
		one := Value{e.intLit("1", v.Typ), v.Typ}
		op := token.ADD
		if s.Tok == token.DEC {
			op = token.SUB
		}
		e.assign(s.X, e.arith(st, op, v, one, v.Typ, s.Pos()), st)
		return st
	case *ast.IfStmt:
		return e.execIf(s, st)
	case *ast.ForStmt:
		return e.execFor(s, st, "")
	case *ast.RangeStmt:
		return e.execRange(s, st, "")
	case *ast.SwitchStmt:
		return e.execSwitch(s, st, "")
	case *ast.TypeSwitchStmt:
		return e.execTypeSwitch(s, st, "")
	case *ast.LabeledStmt:
		switch in := s.Stmt.(type) {
		case *ast.ForStmt:
			return e.execFor(in, st, s.Label.Name)
		case *ast.RangeStmt:
			return e.execRange(in, st, s.Label.Name)
		case *ast.SwitchStmt:
			return e.execSwitch(in, st, s.Label.Name)
		case *ast.TypeSwitchStmt:
			return e.execTypeSwitch(in, st, s.Label.Name)
		}
		e.note("label %s on a non-loop statement: goto targets unsupported", s.Label.Name)
		return e.exec(s.Stmt, st)
	case *ast.BranchStmt:
		return e.execBranch(s, st)
	case *ast.ReturnStmt:
		return e.execReturn(s, st)
	case *ast.DeferStmt:
		e.abstract("defer (deferred call not executed)", s.Pos())
		for _, a := range s.Call.Args {
			e.evMulti(a, st)
		}
		return st
	case *ast.GoStmt:
		e.abstract("go statement (goroutine body not modelled)", s.Pos())
		for _, a := range s.Call.Args {
			e.evMulti(a, st)
		}
		e.havocAll(st)
		return st
	case *ast.SendStmt:
		e.ev(s.Chan, st)
		e.ev(s.Value, st)
		e.abstract("channel send", s.Pos())
		return st
	case *ast.SelectStmt:
		e.fail(s.Pos(), "select statement")
	}
	e.fail(s.Pos(), "unsupported statement %T", s)
	return nil
}

// terminated reports whether the expression statement never returns (panic or os.Exit).
func (e *Engine) terminated(x ast.Expr) bool {
	c, ok := x.(*ast.CallExpr)
	if !ok {
		return false
	}
	if id, ok := c.Fun.(*ast.Ident); ok && id.Name == "panic" {
		if _, isB := e.pk.Info.ObjectOf(id).(*types.Builtin); isB {
			return true
		}
	}
	return false
}

func (e *Engine) declVar(st *State, obj types.Object, v Value) {
	v.Typ = obj.Type()
	if e.boxed[obj] {
		r := e.alloc(st)
		e.storePtr(st, r, v)
		st.vars[obj] = Value{r, types.NewPointer(obj.Type())}
		return
	}
	v.T = e.nameTerm(obj.Name(), e.sortOf(v.Typ), v.T)
	st.vars[obj] = v
}

func (e *Engine) setVar(st *State, obj types.Object, v Value) {
	v.Typ = obj.Type()
	if e.boxed[obj] {
		if r, ok := st.vars[obj]; ok {
			e.storePtr(st, r.T, v)
			return
		}
	}
	v.T = e.nameTerm(obj.Name(), e.sortOf(v.Typ), v.T)
	st.vars[obj] = v
}

func (e *Engine) execAssign(s *ast.AssignStmt, st *State) *State {
	if s.Tok != token.ASSIGN && s.Tok != token.DEFINE {
		// op-assign
		var op token.Token
		switch s.Tok {
		case token.ADD_ASSIGN:
			op = token.ADD
		case token.SUB_ASSIGN:
			op = token.SUB
		case token.MUL_ASSIGN:
			op = token.MUL
		case token.QUO_ASSIGN:
			op = token.QUO
		case token.REM_ASSIGN:
			op = token.REM
		case token.AND_ASSIGN:
			op = token.AND
		case token.OR_ASSIGN:
			op = token.OR
		case token.XOR_ASSIGN:
			op = token.XOR
		case token.SHL_ASSIGN:
			op = token.SHL
		case token.SHR_ASSIGN:
			op = token.SHR
		case token.AND_NOT_ASSIGN:
			op = token.AND_NOT
		}
		a := e.ev(s.Lhs[0], st)
		b := e.ev(s.Rhs[0], st)
		var r Value
		switch {
		case isString(a.Typ):
			r = e.concat(st, a, b, a.Typ)
		case isFloat(a.Typ):
			r = e.opaque("f"+mangle(op.String()), a.Typ, a, b)
		case op == token.SHL || op == token.SHR:
			r = e.shift(st, op, a, b, a.Typ, s.Pos())
		default:
			r = e.arith(st, op, a, Value{b.T, a.Typ}, a.Typ, s.Pos())
		}
		e.assign(s.Lhs[0], r, st)
		return st
	}
	var vals []Value
	if len(s.Rhs) == 1 && len(s.Lhs) > 1 {
		// comma-ok forms
		switch r := unparen(s.Rhs[0]).(type) {
		case *ast.TypeAssertExpr:
			v, ok := e.evTypeAssert(r, st, true)
			vals = []Value{v, {ok, types.Typ[types.Bool]}}
		case *ast.IndexExpr:
			if mt, isMap := types.Unalias(e.typeOf(r.X)).Underlying().(*types.Map); isMap {
				m := e.ev(r.X, st)
				k := e.ev(r.Index, st)
				v, has := e.mapGet(st, m, mt, k)
				vals = []Value{v, {has, types.Typ[types.Bool]}}
			}
		case *ast.UnaryExpr:
			if r.Op == token.ARROW {
				e.abstract("channel receive", r.Pos())
				ct := types.Unalias(e.typeOf(r.X)).Underlying().(*types.Chan)
				vals = []Value{e.havocValue("recv", ct.Elem()), e.havocValue("recvok", types.Typ[types.Bool])}
			}
		}
		if vals == nil {
			vals = e.evMulti(s.Rhs[0], st)
		}
	} else {
		for _, r := range s.Rhs {
			vals = append(vals, e.ev(r, st))
		}
	}
	if len(vals) != len(s.Lhs) {
		e.fail(s.Pos(), "assignment arity")
	}
	for i, l := range s.Lhs {
		if id, ok := l.(*ast.Ident); ok {
			if id.Name == "_" {
				continue
			}
			if s.Tok == token.DEFINE {
				if obj := e.pk.Info.Defs[id]; obj != nil {
					e.declVar(st, obj, e.coerce(vals[i], obj.Type(), st))
					continue
				}
			}
		}
		e.assign(l, vals[i], st)
	}
	return st
}

// assign stores v into the location denoted by lhs.
func (e *Engine) assign(lhs ast.Expr, v Value, st *State) {
	lhs = unparen(lhs)
	switch l := lhs.(type) {
	case *ast.Ident:
		if l.Name == "_" {
			return
		}
		obj := e.pk.Info.ObjectOf(l)
		vr, ok := obj.(*types.Var)
		if !ok {
			e.fail(l.Pos(), "assign to %s", l.Name)
		}
		if vr.Parent() == vr.Pkg().Scope() {
			e.abstract("assignment to package variable "+vr.Name()+" (ignored)", l.Pos())
			return
		}
		e.setVar(st, obj, e.coerce(v, obj.Type(), st))
	case *ast.StarExpr:
		p := e.ev(l.X, st)
		e.oblige(st, "nil", not(eq(p.T, e.izero())), l.Pos(), "nil dereference")
		e.storePtr(st, p.T, e.coerce(v, e.typeOf(l), st))
	case *ast.SelectorExpr:
		sel := e.pk.Info.Selections[l]
		if sel == nil {
			e.abstract("assignment to package variable "+exprStr(l)+" (ignored)", l.Pos())
			return
		}
		e.assignField(l.X, sel.Index(), e.coerce(v, e.typeOf(l), st), st, l.Pos())
	case *ast.IndexExpr:
		bt := types.Unalias(e.typeOf(l.X))
		if mt, ok := bt.Underlying().(*types.Map); ok {
			m := e.ev(l.X, st)
			e.oblige(st, "nilmap", not(eq(m.T, e.izero())), l.Pos(), "assignment to entry in nil map")
			k := e.coerce(e.ev(l.Index, st), mt.Key(), st)
			e.mapSet(st, m, mt, k, e.coerce(v, mt.Elem(), st))
			return
		}
		switch u := bt.Underlying().(type) {
		case *types.Slice:
			base := e.ev(l.X, st)
			i := e.idx64(e.ev(l.Index, st))
			e.oblige(st, "index", and(e.le(e.izero(), i), e.lt(i, sx("l_len", base.T))), l.Pos(), "index "+exprStr(l))
			hn := elemHeapName(u.Elem())
			srt := e.arrSort(e.arrSort(e.sortOf(u.Elem())))
			h := e.heapGet(st, hn, srt)
			ref := sx("l_ref", base.T)
			v = e.coerce(v, u.Elem(), st)
			e.heapSet(st, hn, srt, sx("store", h, ref, sx("store", sx("select", h, ref), e.add(sx("l_off", base.T), i), v.T)))
		case *types.Array:
			base := e.ev(l.X, st)
			i := e.idx64(e.ev(l.Index, st))
			e.oblige(st, "index", and(e.le(e.izero(), i), e.lt(i, e.ilit(fmt.Sprint(u.Len())))), l.Pos(), "index "+exprStr(l))
			v = e.coerce(v, u.Elem(), st)
			e.assign(l.X, Value{sx("store", base.T, i, v.T), base.Typ}, st)
		case *types.Pointer:
			e.fail(l.Pos(), "index assignment through array pointer")
		default:
			e.fail(l.Pos(), "index assignment on %s", bt)
		}
	default:
		e.fail(lhs.Pos(), "assignment to %T", lhs)
	}
}

// assignField writes v at base.path (path through embedded fields).
func (e *Engine) assignField(base ast.Expr, path []int, v Value, st *State, p token.Pos) {
	bt := types.Unalias(e.typeOf(base))
	if pt, ok := bt.Underlying().(*types.Pointer); ok {
		ptr := e.ev(base, st)
		e.oblige(st, "nil", not(eq(ptr.T, e.izero())), p, "nil dereference")
		su := pt.Elem().Underlying().(*types.Struct)
		f := su.Field(path[0])
		if len(path) == 1 {
			e.storeField(st, ptr.T, pt.Elem(), f.Name(), v)
			return
		}
		cur := e.loadField(st, ptr.T, pt.Elem(), f.Name(), f.Type())
		nv := e.updatePath(st, cur, path[1:], v, p)
		e.storeField(st, ptr.T, pt.Elem(), f.Name(), nv)
		return
	}
	cur := e.ev(base, st)
	nv := e.updatePath(st, cur, path, v, p)
	e.assign(base, nv, st)
}

// updatePath returns cur with the field at path replaced by v (value structs; pointers inside are followed through the heap).
func (e *Engine) updatePath(st *State, cur Value, path []int, v Value, p token.Pos) Value {
	t := types.Unalias(cur.Typ)
	if pt, ok := t.Underlying().(*types.Pointer); ok {
		e.oblige(st, "nil", not(eq(cur.T, e.izero())), p, "nil dereference")
		su := pt.Elem().Underlying().(*types.Struct)
		f := su.Field(path[0])
		if len(path) == 1 {
			e.storeField(st, cur.T, pt.Elem(), f.Name(), v)
		} else {
			in := e.loadField(st, cur.T, pt.Elem(), f.Name(), f.Type())
			e.storeField(st, cur.T, pt.Elem(), f.Name(), e.updatePath(st, in, path[1:], v, p))
		}
		return cur
	}
	su, ok := t.Underlying().(*types.Struct)
	if !ok {
		e.fail(p, "field update on %s", t)
	}
	sn := e.sortOf(t)
	var fs []string
	for i := 0; i < su.NumFields(); i++ {
		f := su.Field(i)
		old := e.proj(sn, f.Name(), i, cur.T)
		if i == path[0] {
			if len(path) == 1 {
				fs = append(fs, v.T)
			} else {
				fs = append(fs, e.updatePath(st, Value{old, f.Type()}, path[1:], v, p).T)
			}
		} else {
			fs = append(fs, old)
		}
	}
	return Value{sx("mk-"+sn, fs...), cur.Typ}
}

func (e *Engine) execIf(s *ast.IfStmt, st *State) *State {
	if s.Init != nil {
		st = e.exec(s.Init, st)
		if st == nil {
			return nil
		}
	}
	c := e.ev(s.Cond, st)
	s1 := st.clone()
	s1.pc = and(st.pc, c.T)
	s2 := st
	s2.pc = and(st.pc, not(c.T))
	r1 := e.exec(s.Body, s1)
	var r2 *State = s2
	if s.Else != nil {
		r2 = e.exec(s.Else, s2)
	}
	return e.merge([]*State{r1, r2})
}

func (e *Engine) pushLoop(label string, isLoop bool) *loopFrame {
	lf := &loopFrame{label: label, isLoop: isLoop}
	e.fr.loops = append(e.fr.loops, lf)
	return lf
}
func (e *Engine) popLoop() { e.fr.loops = e.fr.loops[:len(e.fr.loops)-1] }

func (e *Engine) execBranch(s *ast.BranchStmt, st *State) *State {
	label := ""
	if s.Label != nil {
		label = s.Label.Name
	}
	switch s.Tok {
	case token.BREAK:
		for i := len(e.fr.loops) - 1; i >= 0; i-- {
			lf := e.fr.loops[i]
			if (label == "" && true) || lf.label == label {
				if label != "" && lf.label != label {
					continue
				}
				lf.breaks = append(lf.breaks, st)
				return nil
			}
		}
	case token.CONTINUE:
		for i := len(e.fr.loops) - 1; i >= 0; i-- {
			lf := e.fr.loops[i]
			if !lf.isLoop {
				continue
			}
			if label == "" || lf.label == label {
				st.tag = e.pos(s.Pos())
				lf.continues = append(lf.continues, st)
				return nil
			}
		}
	case token.FALLTHROUGH:
		e.fail(s.Pos(), "fallthrough")
	case token.GOTO:
		e.fail(s.Pos(), "goto")
	}
	e.fail(s.Pos(), "branch target not found")
	return nil
}

func (e *Engine) execReturn(s *ast.ReturnStmt, st *State) *State {
	fr := e.fr
	if len(s.Results) > 0 {
		var vals []Value
		_, tuple := e.typeOf(s.Results[0]).(*types.Tuple)
		if len(s.Results) == 1 && (len(fr.results) > 1 || tuple) {
			vals = e.evMulti(s.Results[0], st)
		} else {
			for _, r := range s.Results {
				vals = append(vals, e.ev(r, st))
			}
		}
		for i, k := range fr.results {
			if i >= len(vals) {
				break
			}
			v := e.coerce(vals[i], fr.restyps[i], st)
			v.Typ = fr.restyps[i]
			if obj, ok := k.(types.Object); ok {
				e.setVar(st, obj, v)
			} else {
				st.vars[k] = v
			}
		}
	}
	if fr.parent == nil && fr.contract != nil && len(fr.contract.Hints) > 0 {
		// function-level split seeds are evaluated at each return site where their variables are in scope
		var hs []*Clause
		for _, h := range fr.contract.Hints {
			if e.inScope(h.Expr, st) {
				hs = append(hs, h)
			}
		}
		e.hints(st, hs)
	}
	fr.returns = append(fr.returns, st)
	return nil
}

// rangeWidthKey holds, inside a range-over-string body, the byte width of the current rune (spec helper rangeWidth()).
var rangeWidthKey = &synth{"rangeWidth"}

// inScope reports whether every local variable mentioned by x has a value in st.
func (e *Engine) inScope(x ast.Expr, st *State) bool {
	ok := true
	ast.Inspect(x, func(n ast.Node) bool {
		id, isID := n.(*ast.Ident)
		if !isID {
			return true
		}
		v, isVar := e.pk.Info.Uses[id].(*types.Var)
		if !isVar || v.IsField() || v.Parent() == nil || v.Parent() == v.Pkg().Scope() {
			return true
		}
		if _, has := st.vars[v]; !has {
			ok = false
		}
		return true
	})
	return ok
}

func (e *Engine) execSwitch(s *ast.SwitchStmt, st *State, label string) *State {
	if s.Init != nil {
		st = e.exec(s.Init, st)
	}
	var tag *Value
	if s.Tag != nil {
		v := e.ev(s.Tag, st)
		v.T = e.nameTerm("tag", e.sortOf(v.Typ), v.T)
		tag = &v
	}
	lf := e.pushLoop(label, false)
	var outs []*State
	rest := st // state in which no previous case matched
	var deflt *ast.CaseClause
	var ft *State // state falling through from the previous clause
	clauses := s.Body.List
	for ci, cs := range clauses {
		cc := cs.(*ast.CaseClause)
		if len(cc.List) == 0 {
			deflt = cc
			continue
		}
		var conds []string
		for _, x := range cc.List {
			if tag != nil {
				xv := e.ev(x, rest)
				conds = append(conds, e.equal(*tag, xv, x.Pos()))
			} else {
				tmp := rest.clone()
				tmp.pc = and(rest.pc, not(or(conds...)))
				xv := e.ev(x, tmp)
				conds = append(conds, xv.T)
			}
		}
		c := or(conds...)
		s1 := rest.clone()
		s1.pc = and(rest.pc, c)
		rest.pc = and(rest.pc, not(c))
		if len(rest.pc) > 200 && e.bound == 0 {
			b := e.fresh("pc", "Bool")
			e.assumes = append(e.assumes, eq(b, rest.pc))
			rest.pc = b
		}
		_ = ci
		// a preceding clause that ended in fallthrough continues here: merge it in so the body is executed once
		entry := s1
		if ft != nil {
			entry = e.merge([]*State{s1, ft})
			ft = nil
		}
		body := cc.Body
		falls := false
		if n := len(body); n > 0 {
			if br, ok := body[n-1].(*ast.BranchStmt); ok && br.Tok == token.FALLTHROUGH {
				body = body[:n-1]
				falls = true
			}
		}
		res := e.execBlock(body, entry)
		if falls {
			ft = res
		} else {
			outs = append(outs, res)
		}
	}
	if deflt != nil {
		dentry := rest
		if ft != nil {
			if clauses[len(clauses)-1] != ast.Stmt(deflt) {
				e.fail(s.Pos(), "fallthrough into a default clause that is not last")
			}
			dentry = e.merge([]*State{rest, ft})
			ft = nil
		}
		outs = append(outs, e.execBlock(deflt.Body, dentry))
	} else {
		outs = append(outs, rest)
		if ft != nil {
			outs = append(outs, ft)
		}
	}
	e.popLoop()
	outs = append(outs, lf.breaks...)
	return e.merge(outs)
}

func (e *Engine) execCaseBody(cc *ast.CaseClause, clauses []ast.Stmt, ci int, st *State) *State {
	body := cc.Body
	if n := len(body); n > 0 {
		if br, ok := body[n-1].(*ast.BranchStmt); ok && br.Tok == token.FALLTHROUGH {
			st = e.execBlock(body[:n-1], st)
			if st == nil {
				return nil
			}
			if ci+1 < len(clauses) {
				return e.execCaseBody(clauses[ci+1].(*ast.CaseClause), clauses, ci+1, st)
			}
			return st
		}
	}
	return e.execBlock(body, st)
}

func (e *Engine) execTypeSwitch(s *ast.TypeSwitchStmt, st *State, label string) *State {
	if s.Init != nil {
		st = e.exec(s.Init, st)
	}
	var x ast.Expr
	var bind *ast.Ident
	switch a := s.Assign.(type) {
	case *ast.ExprStmt:
		x = a.X.(*ast.TypeAssertExpr).X
	case *ast.AssignStmt:
		x = a.Rhs[0].(*ast.TypeAssertExpr).X
		bind = a.Lhs[0].(*ast.Ident)
	}
	_ = bind
	v := e.ev(x, st)
	// a value boxed from a known concrete type (unit option dyntype): arms are selected statically
	var staticT types.Type
	if strings.HasPrefix(v.T, "(mk-ifc ") {
		var id int
		if _, err := fmt.Sscanf(v.T, "(mk-ifc %d ", &id); err == nil && id > 0 {
			staticT = e.tidTypes[id]
		}
	}
	v.T = e.nameTerm("tsw", "Ifc", v.T)
	lf := e.pushLoop(label, false)
	var outs []*State
	rest := st
	var deflt *ast.CaseClause
	taken := false
	for _, cs := range s.Body.List {
		cc := cs.(*ast.CaseClause)
		if len(cc.List) == 0 {
			deflt = cc
			continue
		}
		if staticT != nil {
			if taken {
				continue
			}
			match := false
			for _, tx := range cc.List {
				if id, ok := tx.(*ast.Ident); ok && id.Name == "nil" {
					continue
				}
				ct := e.typeOf(tx)
				if iface, isIface := types.Unalias(ct).Underlying().(*types.Interface); isIface {
					if types.Implements(staticT, iface) {
						match = true
					}
				} else if types.Identical(ct, staticT) {
					match = true
				}
			}
			if !match {
				continue
			}
			taken = true
			// obligations of the loops inside the selected arm are named by their position within the arm, so that
			// adding or removing a loop elsewhere in the function does not rename them
			base := -1
			for l, o := range e.loopOrd {
				if l.Pos() >= cc.Pos() && l.End() <= cc.End() && (base < 0 || o < base) {
					base = o
				}
			}
			if base > 0 {
				e.armBase = base
			}
		}
		var conds []string
		for _, tx := range cc.List {
			if id, ok := tx.(*ast.Ident); ok && id.Name == "nil" {
				conds = append(conds, e.isNil(v))
				continue
			}
			conds = append(conds, e.hasType(v, e.typeOf(tx)))
		}
		c := or(conds...)
		s1 := rest.clone()
		s1.pc = and(rest.pc, c)
		rest.pc = and(rest.pc, not(c))
		if obj := e.pk.Info.Implicits[cc]; obj != nil {
			if len(cc.List) == 1 {
				if _, isIface := types.Unalias(obj.Type()).Underlying().(*types.Interface); isIface {
					s1.vars[obj] = Value{v.T, obj.Type()}
				} else {
					s1.vars[obj] = e.unbox(v.T, obj.Type())
				}
			} else {
				s1.vars[obj] = Value{v.T, obj.Type()}
			}
		}
		outs = append(outs, e.execBlock(cc.Body, s1))
	}
	if staticT != nil && taken {
		// the matching arm was found statically: no other arm and no default is reachable
	} else if deflt != nil {
		if obj := e.pk.Info.Implicits[deflt]; obj != nil {
			rest.vars[obj] = Value{v.T, obj.Type()}
		}
		outs = append(outs, e.execBlock(deflt.Body, rest))
	} else {
		outs = append(outs, rest)
	}
	e.popLoop()
	outs = append(outs, lf.breaks...)
	return e.merge(outs)
}

// ---------------- loops ----------------

// modified computes the local variables assigned and the heap names written inside nodes.
type modset struct {
	ghost map[types.Object]bool
	tracks map[string]bool // tracked callees (opt track) called inside
	vars  map[types.Object]bool
	heaps map[string]bool
	all   bool
	alloc bool
}

func (e *Engine) modifiedIn(nodes ...ast.Node) *modset {
	m := &modset{vars: map[types.Object]bool{}, heaps: map[string]bool{}, ghost: map[types.Object]bool{}}
	var lhs func(x ast.Expr)
	lhs = func(x ast.Expr) {
		x = unparen(x)
		switch l := x.(type) {
		case *ast.Ident:
			if obj := e.pk.Info.ObjectOf(l); obj != nil {
				if e.boxed[obj] {
					m.heaps[ptrHeapName(obj.Type())] = true
					e.structHeaps(obj.Type(), m)
				}
				m.vars[obj] = true
			}
		case *ast.StarExpr:
			t := e.typeOf(l)
			m.heaps[ptrHeapName(t)] = true
			e.structHeaps(t, m)
		case *ast.SelectorExpr:
			sel := e.pk.Info.Selections[l]
			if sel == nil {
				return
			}
			// find first pointer hop from the base
			e.selHeaps(l, m, lhs)
		case *ast.IndexExpr:
			bt := types.Unalias(e.typeOf(l.X))
			switch u := bt.Underlying().(type) {
			case *types.Slice:
				m.heaps[elemHeapName(u.Elem())] = true
			case *types.Map:
				m.heaps[mapHeapName(u)] = true
				m.heaps[mapHasName(u)] = true
				m.heaps[mapLenName(u)] = true
			case *types.Array:
				lhs(l.X)
			default:
				m.all = true
			}
		}
	}
	for _, n := range nodes {
		if n == nil {
			continue
		}
		ast.Inspect(n, func(n ast.Node) bool {
			if st, ok := n.(ast.Stmt); ok && e.pk.Injected[st] {
				return false // contract expressions injected for type checking are not code
			}
			switch s := n.(type) {
			case *ast.AssignStmt:
				for _, l := range s.Lhs {
					lhs(l)
				}
			case *ast.IncDecStmt:
				lhs(s.X)
			case *ast.RangeStmt:
				if s.Key != nil {
					lhs(s.Key)
				}
				if s.Value != nil {
					lhs(s.Value)
				}
			case *ast.DeclStmt:
				// locals declared inside are fresh each iteration: nothing to havoc
			case *ast.CallExpr:
				e.callMods(s, m)
			case *ast.GoStmt:
				m.all = true
			case *ast.SendStmt:
				// a send hands a value to another goroutine; sequential model: no effect on tracked memory (listed under abstracted)
			case *ast.UnaryExpr:
				if s.Op == token.AND {
					m.alloc = true
				}
			case *ast.CompositeLit:
				m.alloc = true
			}
			return true
		})
	}
	return m
}

func (e *Engine) structHeaps(t types.Type, m *modset) {
	if su, ok := types.Unalias(t).Underlying().(*types.Struct); ok {
		for i := 0; i < su.NumFields(); i++ {
			m.heaps[fieldHeapName(t, su.Field(i).Name())] = true
		}
	}
}

func (e *Engine) selHeaps(l *ast.SelectorExpr, m *modset, lhs func(ast.Expr)) {
	sel := e.pk.Info.Selections[l]
	t := types.Unalias(e.typeOf(l.X))
	path := sel.Index()
	cur := t
	for _, idx := range path {
		if pt, ok := cur.Underlying().(*types.Pointer); ok {
			su := pt.Elem().Underlying().(*types.Struct)
			m.heaps[fieldHeapName(pt.Elem(), su.Field(idx).Name())] = true
			return
		}
		su := cur.Underlying().(*types.Struct)
		cur = types.Unalias(su.Field(idx).Type())
	}
	// no pointer hop: the base value itself is updated
	lhs(l.X)
}

// callMods adds the heap effects of a call to m.
func (e *Engine) callMods(c *ast.CallExpr, m *modset) {
	if tv, ok := e.pk.Info.Types[c.Fun]; ok && tv.IsType() {
		if _, isSlice := types.Unalias(tv.Type).Underlying().(*types.Slice); isSlice {
			m.alloc = true
			m.heaps[elemHeapName(types.Unalias(tv.Type).Underlying().(*types.Slice).Elem())] = true
		}
		return
	}
	if id, ok := unparen(c.Fun).(*ast.Ident); ok {
		if b, isB := e.pk.Info.ObjectOf(id).(*types.Builtin); isB {
			switch b.Name() {
			case "append", "copy":
				if len(c.Args) > 0 {
					if sl, ok := types.Unalias(e.typeOf(c.Args[0])).Underlying().(*types.Slice); ok {
						m.heaps[elemHeapName(sl.Elem())] = true
					}
				}
				m.alloc = true
			case "make", "new":
				m.alloc = true
				if len(c.Args) > 0 {
					if tv, ok := e.pk.Info.Types[c.Args[0]]; ok {
						switch u := types.Unalias(tv.Type).Underlying().(type) {
						case *types.Slice:
							m.heaps[elemHeapName(u.Elem())] = true
						case *types.Map:
							m.heaps[mapHeapName(u)] = true
							m.heaps[mapHasName(u)] = true
							m.heaps[mapLenName(u)] = true
						default:
							m.heaps[ptrHeapName(tv.Type)] = true
							e.structHeaps(tv.Type, m)
						}
					}
				}
			case "delete":
				if mt, ok := types.Unalias(e.typeOf(c.Args[0])).Underlying().(*types.Map); ok {
					m.heaps[mapHeapName(mt)] = true
					m.heaps[mapHasName(mt)] = true
					m.heaps[mapLenName(mt)] = true
				}
			}
			return
		}
	}
	fn := e.staticCallee(c)
	if fn != nil && e.c != nil && e.c.Opts["ghostvisit"] != "" && e.c.Opts["ghostvisit"] == fn.Name() {
		m.heaps[ghVisited] = true
		m.heaps[ghCount] = true
	}
	if fn != nil && e.c != nil {
		for _, n := range strings.Fields(e.c.Opts["track"]) {
			if n == fn.Name() {
				if m.tracks == nil {
					m.tracks = map[string]bool{}
				}
				m.tracks[n] = true
			}
		}
	}
	if fn == nil {
		// closure variable? inline-able closures are analysed through their body
		if id, ok := unparen(c.Fun).(*ast.Ident); ok {
			if lit := e.closureOf(id); lit != nil {
				sub := e.modifiedIn(lit.Body)
				m.union(sub)
				return
			}
		}
		if e.ifaceStubPure(c) {
			return
		}
		if hs, ok := e.ifaceStubMods(c); ok {
			for _, h := range hs {
				m.heaps[h] = true
			}
			return
		}
		if id, ok := unparen(c.Fun).(*ast.Ident); ok {
			if obj := e.pk.Info.ObjectOf(id); obj != nil {
				m.ghost[obj] = true
			}
		}
		m.all = true
		return
	}
	full := fn.FullName()
	if _, ok := pureStubs[full]; ok {
		return
	}
	if fn.Pkg() != nil && e.w.Pkgs[fn.Pkg().Path()] == nil && purePkgs[fn.Pkg().Path()] {
		if sliceWriters[full] {
			for _, a := range c.Args {
				if sl, ok := types.Unalias(e.typeOf(a)).Underlying().(*types.Slice); ok {
					m.heaps[elemHeapName(sl.Elem())] = true
				}
			}
		}
		m.alloc = true
		return
	}
	switch full {
	case "io.WriteString":
		m.heaps["W_out"], m.heaps["W_failed"], m.heaps["W_err"] = true, true, true
		return
	case "sort.Strings", "sort.Slice", "sort.Sort", "sort.Ints", "sort.SliceStable", "sort.Stable", "slices.Sort", "slices.SortFunc":
		if len(c.Args) > 0 {
			if sl, ok := types.Unalias(e.typeOf(c.Args[0])).Underlying().(*types.Slice); ok {
				m.heaps[elemHeapName(sl.Elem())] = true
				return
			}
		}
	}
	if ct := e.contractFor(fn); ct != nil {
		if ct.Pure {
			return
		}
		if ct.ModSet {
			for _, h := range ct.Modifies {
				if h == "all" {
					m.all = true
				} else if h != "nothing" {
					m.heaps[h] = true
				}
			}
			if ct.Opts["allocates"] != "" {
				m.alloc = true
			}
			return
		}
		// contract without modifies: the callee's syntactic write set
		m.union(e.calleeMods(fn))
		return
	}
	if decl, _ := e.declOf(fn); decl != nil && e.inlinable(decl) {
		m.union(e.calleeMods(fn))
		return
	}
	m.all = true
}

var modCache = map[string]*modset{}
var modInProgress = map[string]bool{}

// calleeMods: syntactic over-approximation of the heaps written by fn (transitively).
func (e *Engine) calleeMods(fn *types.Func) *modset {
	key := fn.FullName()
	if m, ok := modCache[key]; ok {
		return m
	}
	all := &modset{vars: map[types.Object]bool{}, heaps: map[string]bool{}, ghost: map[types.Object]bool{}, all: true}
	if modInProgress[key] {
		return all // recursion: conservative
	}
	decl, pk := e.declOf(fn)
	if decl == nil {
		return all
	}
	modInProgress[key] = true
	tmp := *e
	tmp.pk = pk
	sub := tmp.modifiedIn(decl.Body)
	delete(modInProgress, key)
	sub.vars = map[types.Object]bool{}
	modCache[key] = sub
	if os.Getenv("GOVC_DEBUG_MODS") != "" {
		var hs []string
		for h := range sub.heaps {
			hs = append(hs, h)
		}
		fmt.Fprintf(os.Stderr, "mods(%s): all=%v alloc=%v heaps=%v\n", key, sub.all, sub.alloc, hs)
	}
	return sub
}

func (m *modset) union(o *modset) {
	for k := range o.vars {
		m.vars[k] = true
	}
	for k := range o.heaps {
		m.heaps[k] = true
	}
	for k := range o.ghost {
		m.ghost[k] = true
	}
	for k := range o.tracks {
		if m.tracks == nil {
			m.tracks = map[string]bool{}
		}
		m.tracks[k] = true
	}
	m.all = m.all || o.all
	m.alloc = m.alloc || o.alloc
}

// havocLoop prepares the arbitrary-iteration state.
func (e *Engine) havocLoop(st *State, m *modset, extraHeaps []string) {
	for obj := range m.vars {
		if _, ok := st.vars[obj]; !ok {
			if _, ok2 := e.inputs[obj]; !ok2 {
				continue // declared inside the loop
			}
		}
		if e.boxed[obj] {
			continue // contents live in the heap (havocked below)
		}
		v := e.havocValue("h_"+obj.Name(), obj.Type())
		e.refBound(st, v)
		st.vars[obj] = v
	}
	for n := range m.tracks {
		// ghost records of tracked calls made in the loop: arbitrary at the loop head
		for _, base := range []string{n, n + ":arg"} {
			for i := 0; i < 8; i++ {
				k := e.trackKey(base, i)
				if v, ok := st.vars[k]; ok {
					st.vars[k] = e.havocValue("h_track", v.Typ)
				}
			}
		}
		// whether a tracked call has happened is unknown at the head of a loop that makes such calls - also when
		// none had happened before the loop (without this, called("f") would read as false after the loop)
		st.vars[e.trackFlag(n)] = e.havocValue("h_called", types.Typ[types.Bool])
	}
	for obj := range m.ghost {
		nk := e.ghostKey("ncalls", obj)
		if n, ok := st.vars[nk]; ok {
			v := e.havocValue("h_ncalls", n.Typ)
			e.assume("true", e.le(n.T, v.T))
			st.vars[nk] = v
			lk := e.ghostKey("lastret", obj)
			if l, ok := st.vars[lk]; ok {
				st.vars[lk] = e.havocValue("h_lastret", l.Typ)
			}
		}
	}
	if m.all {
		e.havocAll(st)
	} else {
		for h := range m.heaps {
			e.havocHeap(st, h)
		}
		for _, h := range extraHeaps {
			if h == "all" {
				e.havocAll(st)
			} else {
				e.havocHeap(st, h)
			}
		}
		if m.alloc {
			nt := e.fresh("top", e.isort())
			e.assume("true", e.le(st.top, nt))
			st.top = nt
		}
	}
	// re-bound references held in havocked locals
	for obj := range m.vars {
		if v, ok := st.vars[obj]; ok && !e.boxed[obj] {
			e.refBound(st, v)
		}
	}
}

func (e *Engine) loopSpec(s ast.Stmt) (*LoopSpec, int) {
	ord, ok := e.loopOrd[s]
	if !ok {
		return nil, -1
	}
	if e.c == nil {
		return nil, ord
	}
	return e.c.Loops[ord], ord
}

func (e *Engine) checkInvariants(st *State, ls *LoopSpec, ord int, kind string, p token.Pos) {
	if ls == nil || st == nil {
		return
	}
	for i, inv := range ls.Invariants {
		e.spec++
		v := e.ev(inv.Expr, st)
		e.spec--
		saved := e.prefix
		e.prefix = saved + fmt.Sprintf("%s.%d.", kind, e.lbl(ord))
		if kind == "inv-pres" && len(ls.caseTerms) > 0 && v.T != "true" {
			// proof by cases (`cases` directive): one obligation per combination; together they are exhaustive
			combos := []string{"true"}
			labels := []string{""}
			for d, dim := range ls.caseTerms {
				var nc, nl []string
				none := "true"
				for _, t := range dim {
					none = and(none, not(t))
				}
				for ci, base := range combos {
					for k, t := range dim {
						nc = append(nc, and(base, t))
						nl = append(nl, fmt.Sprintf("%s.%d:%d", labels[ci], d, k))
					}
					nc = append(nc, and(base, none))
					nl = append(nl, fmt.Sprintf("%s.%d:else", labels[ci], d))
				}
				combos, labels = nc, nl
			}
			for ci, cnd := range combos {
				s2 := st.clone()
				s2.pc = and(st.pc, cnd)
				e.obligeNamed(s2, fmt.Sprintf("%s.%d#%d@case%s", kind, e.lbl(ord), i, labels[ci]), kind, v.T, p, fmt.Sprintf("loop %d invariant %q (case %s)", ord, inv.Text, labels[ci]), inv.Prop)
			}
		} else {
			e.obligeNamed(st, fmt.Sprintf("%s.%d#%d", kind, e.lbl(ord), i), kind, v.T, p, fmt.Sprintf("loop %d invariant %q", ord, inv.Text), inv.Prop)
		}
		e.prefix = saved
	}
}

// evalCases evaluates the `cases` conditions of a loop at the start of its body.
func (e *Engine) evalCases(ls *LoopSpec, body *State) {
	if ls == nil {
		return
	}
	ls.caseTerms = nil
	for _, dim := range ls.CaseDims {
		var ts []string
		for _, cl := range dim {
			e.spec++
			v := e.ev(cl.Expr, body)
			e.spec--
			ts = append(ts, e.nameTerm("case", "Bool", v.T))
		}
		ls.caseTerms = append(ls.caseTerms, ts)
	}
}

func (e *Engine) obligeNamed(st *State, name, kind, goal string, p token.Pos, desc, prop string) {
	if e.spec > 0 || st == nil {
		return
	}
	if goal == "true" && kind == "pre" {
		return
	}
	full := fmt.Sprintf("%s.%s/%s", pkgShort(e.pk.Path), e.c.Name, e.inlPrefix()+name)
	if n := e.cnt["named:"+full]; n > 0 {
		e.cnt["named:"+full] = n + 1
		full = fmt.Sprintf("%s~%d", full, n)
	} else {
		e.cnt["named:"+full] = 1
	}
	if prop == "" {
		prop = e.c.primary()
	}
	o := &Oblig{Name: full, Unit: e.c.Name, Kind: kind, Pos: e.pos(p), PC: st.pc, Goal: goal,
		NAssumes: len(e.assumes), NDecls: len(e.decls), Desc: desc, Prop: prop}
	if goal == "true" {
		o.Status, o.Solver = "unsat", "syntactic"
	}
	e.obligs = append(e.obligs, o)
}

func (e *Engine) inlPrefix() string {
	if len(e.inlineStack) == 0 {
		return ""
	}
	return "inl:" + strings.Join(e.inlineStack, ">") + "/"
}

func (e *Engine) assumeInvariants(st *State, ls *LoopSpec) {
	if ls == nil {
		return
	}
	for _, inv := range ls.Invariants {
		e.spec++
		v := e.ev(inv.Expr, st)
		e.spec--
		st.pc = and(st.pc, v.T)
	}
	if len(st.pc) > 200 {
		b := e.fresh("pc", "Bool")
		e.assumes = append(e.assumes, eq(b, st.pc))
		st.pc = b
	}
}

func (e *Engine) execFor(s *ast.ForStmt, st *State, label string) *State {
	if s.Init != nil {
		st = e.exec(s.Init, st)
		if st == nil {
			return nil
		}
	}
	ls, ord := e.loopSpec(s)
	if len(e.inlineStack) > 0 {
		e.fail(s.Pos(), "loop inside an inlined function (give the callee a contract)")
	}
	e.loopEntry = append(e.loopEntry, st.clone())
	defer func() { e.loopEntry = e.loopEntry[:len(e.loopEntry)-1] }()
	e.checkInvariants(st, ls, ord, "inv-init", s.Pos())
	m := e.modifiedIn(s.Body, s.Post, s.Cond)
	e.loopFrame(st, m, ord, "inv-init", s.Pos(), false)
	var extra []string
	if ls != nil {
		extra = ls.Modifies
	}
	if os.Getenv("GOVC_DEBUG_MODS") != "" {
		var hs []string
		for h := range m.heaps {
			hs = append(hs, h)
		}
		fmt.Fprintf(os.Stderr, "loop %d mods: all=%v alloc=%v heaps=%v\n", ord, m.all, m.alloc, hs)
	}
	head := st.clone()
	e.havocLoop(head, m, extra)
	e.assumeInvariants(head, ls)
	e.loopFrame(head, m, ord, "", s.Pos(), true)
	e.ghostMonotone(st, head, m)
	if ls != nil {
		e.hints(head, ls.Hints)
	}
	cond := "true"
	if s.Cond != nil {
		cond = e.ev(s.Cond, head).T
	}
	body := head.clone()
	body.pc = and(head.pc, cond)
	exit := head
	exit.pc = and(head.pc, not(cond))
	// variant at head
	var v0 string
	if ls != nil && ls.Decreases != nil {
		e.spec++
		v0 = e.ev(ls.Decreases.Expr, body).T
		e.spec--
		v0 = e.nameTerm("variant", e.isort(), v0)
	}
	e.evalCases(ls, body)
	lf := e.pushLoop(label, true)
	end := e.execBlock(s.Body.List, body)
	e.popLoop()
	if os.Getenv("GOVC_SPLIT") != "" && s.Post == nil && ls != nil {
		// debugging aid: check the invariants separately for every way of reaching the loop end
		for i, cs := range append([]*State{end}, lf.continues...) {
			if cs == nil {
				continue
			}
			for j, inv := range ls.Invariants {
				e.spec++
				v := e.ev(inv.Expr, cs)
				e.spec--
				e.obligeNamed(cs, fmt.Sprintf("split-inv.%d#%d@%d[%s]", ord, j, i, cs.tag), "split", v.T, s.Pos(), "debug split", "")
			}
			if v0 != "" {
				e.spec++
				v1 := e.ev(ls.Decreases.Expr, cs).T
				e.spec--
				e.obligeNamed(cs, fmt.Sprintf("split-dec.%d@%d[%s]", ord, i, cs.tag), "split", and(e.le(e.izero(), v0), e.lt(v1, v0)), s.Pos(), "debug split", "")
			}
		}
	}
	for pi, end := range e.loopEnds(end, lf) {
		sfx := ""
		if pi > 0 {
			sfx = fmt.Sprintf("@p%d", pi)
		}
		if end != nil && s.Post != nil {
			end = e.exec(s.Post, end)
		}
		if end != nil {
			e.checkInvariants(end, ls, ord, "inv-pres"+sfx, s.Pos())
			e.loopFrame(end, m, ord, "inv-pres"+sfx, s.Pos(), false)
			if v0 != "" {
				e.spec++
				v1 := e.ev(ls.Decreases.Expr, end).T
				e.spec--
				e.obligeNamed(end, fmt.Sprintf("dec%s.%d", sfx, e.lbl(ord)), "dec", and(e.le(e.izero(), v0), e.lt(v1, v0)), s.Pos(), "loop variant decreases and is bounded below", ls.Decreases.Prop)
			}
			e.canary(end, fmt.Sprintf("loop%d-end%s", e.lbl(ord), sfx), s.Pos())
		}
	}
	outs := append([]*State{exit}, lf.breaks...)
	return e.merge(outs)
}

// loopEnds: the states in which an iteration of a loop body ends. Normally they are merged into one state and the
// invariants are checked once; with `opt splitpaths yes` every way of reaching the end of the body (falling off the
// end, each continue) is checked on its own (obligations inv-pres@p1, @p2, ... in source order of the continues),
// which keeps each query to one path through the body.
func (e *Engine) loopEnds(end *State, lf *loopFrame) []*State {
	all := append([]*State{end}, lf.continues...)
	if e.c == nil || e.c.Opts["splitpaths"] == "" || e.spec > 0 {
		return []*State{e.merge(all)}
	}
	var out []*State
	for _, s := range all {
		if s != nil {
			out = append(out, s)
		}
	}
	if len(out) <= 1 {
		return []*State{e.merge(all)}
	}
	return append([]*State{nil}, out...) // index 0 unused: split paths are numbered from 1
}

func (e *Engine) canary(st *State, where string, p token.Pos) {
	if e.spec > 0 || st == nil || len(e.inlineStack) > 0 {
		return
	}
	n := e.cnt["canary"]
	e.cnt["canary"] = n + 1
	e.obligs = append(e.obligs, &Oblig{Name: fmt.Sprintf("%s.%s/canary#%d(%s)", pkgShort(e.pk.Path), e.c.Name, n, where), Unit: e.c.Name, Kind: "canary",
		Pos: e.pos(p), PC: st.pc, Goal: "false", NAssumes: len(e.assumes), NDecls: len(e.decls), Canary: true, Prop: e.c.primary(), Desc: "reachability canary (must NOT be provable)"})
}

func (e *Engine) execRange(s *ast.RangeStmt, st *State, label string) *State {
	xt := types.Unalias(e.typeOf(s.X))
	ls, ord := e.loopSpec(s)
	if len(e.inlineStack) > 0 {
		e.fail(s.Pos(), "loop inside an inlined function (give the callee a contract)")
	}
	coll := e.ev(s.X, st)
	coll.T = e.nameTerm("rng", e.sortOf(coll.Typ), coll.T)
	var keyObj, valObj types.Object
	getObj := func(x ast.Expr) types.Object {
		if x == nil {
			return nil
		}
		id, ok := x.(*ast.Ident)
		if !ok {
			e.fail(x.Pos(), "range into non-identifier")
		}
		if id.Name == "_" {
			return nil
		}
		if s.Tok == token.DEFINE {
			return e.pk.Info.Defs[id]
		}
		return e.pk.Info.ObjectOf(id)
	}
	keyObj, valObj = getObj(s.Key), getObj(s.Value)
	it := types.Typ[types.Int]
	hidden := &synth{fmt.Sprintf("rangeidx%d", ord)}

	var length string
	isMap := false
	switch u := xt.Underlying().(type) {
	case *types.Slice:
		length = sx("l_len", coll.T)
	case *types.Basic:
		if u.Info()&types.IsString != 0 {
			length = sx("s_len", coll.T)
		} else {
			length = e.idx64(coll) // range over int
		}
	case *types.Array:
		length = e.ilit(fmt.Sprint(u.Len()))
	case *types.Map:
		isMap = true
		length = e.mapLen(st, coll, u)
		if !e.bv && e.bound == 0 {
			// the key function of this loop (see below); declared here so that invariants can name it on entry
			fn := fmt.Sprintf("mkey!%d", ord)
			e.declareFun(fn, []string{e.isort()}, e.sortOf(u.Key()))
			if e.mapKeyFn == nil {
				e.mapKeyFn = map[int]string{}
			}
			e.mapKeyFn[ord] = fn
		}
	case *types.Chan:
		e.abstract("range over channel", s.Pos())
		e.havocAll(st)
		return st
	default:
		e.fail(s.Pos(), "range over %s", xt)
	}
	st.vars[hidden] = Value{e.izero(), it}
	bindKey := func(s2 *State) {
		if keyObj != nil && !isMap {
			k := s2.vars[hidden]
			e.setVar(s2, keyObj, Value{k.T, keyObj.Type()})
		}
	}
	bindKey(st)
	e.loopEntry = append(e.loopEntry, st.clone())
	defer func() { e.loopEntry = e.loopEntry[:len(e.loopEntry)-1] }()
	e.checkInvariants(st, ls, ord, "inv-init", s.Pos())
	m := e.modifiedIn(s.Body)
	e.loopFrame(st, m, ord, "inv-init", s.Pos(), false)
	var extra []string
	if ls != nil {
		extra = ls.Modifies
	}
	head := st.clone()
	e.havocLoop(head, m, extra)
	hk := e.fresh("k", e.isort())
	e.assume("true", and(e.le(e.izero(), hk), e.le(hk, length)))
	head.vars[hidden] = Value{hk, it}
	if keyObj != nil && !isMap {
		head.vars[keyObj] = Value{hk, keyObj.Type()}
		if e.boxed[keyObj] {
			e.fail(s.Pos(), "captured range variable")
		}
	}
	e.assumeInvariants(head, ls)
	e.loopFrame(head, m, ord, "", s.Pos(), true)
	e.ghostMonotone(st, head, m)
	cond := e.lt(hk, length)
	body := head.clone()
	body.pc = and(head.pc, cond)
	exit := head
	exit.pc = and(head.pc, not(cond))
	next := e.add(hk, e.ilit("1"))
	// bind per-iteration variables
	switch u := xt.Underlying().(type) {
	case *types.Slice:
		if valObj != nil {
			hn := elemHeapName(u.Elem())
			srt := e.arrSort(e.arrSort(e.sortOf(u.Elem())))
			h := e.heapGet(body, hn, srt)
			tm := sx("select", sx("select", h, sx("l_ref", coll.T)), e.add(sx("l_off", coll.T), hk))
			e.assume("true", e.rangeFact(tm, u.Elem()))
			v := Value{tm, u.Elem()}
			e.refBoundHeap(body, v)
			if tv, ok := e.tableElem(s.X, Value{hk, it}, u.Elem()); ok {
				v = tv
			}
			e.declVar(body, valObj, v)
		}
	case *types.Array:
		if valObj != nil {
			tm := sx("select", coll.T, hk)
			e.assume("true", e.rangeFact(tm, u.Elem()))
			e.declVar(body, valObj, Value{tm, u.Elem()})
		}
	case *types.Basic:
		if u.Info()&types.IsString != 0 {
			// rune iteration
			b0 := sx("select", sx("s_arr", coll.T), e.add(sx("s_off", coll.T), hk))
			size := e.fresh("rsize", e.isort())
			r := e.fresh("rune", e.sortOf(types.Typ[types.Rune]))
			rem := e.sub(length, hk)
			e.assume(body.pc, and(e.le(e.ilit("1"), size), e.le(size, e.ilit("4")), e.le(size, rem)))
			e.assume(body.pc, and(sx("<=", "0", b0), sx("<=", b0, "255")))
			e.assume(body.pc, ite(sx("<", b0, "128"), and(eq(r, b0), eq(size, "1")),
				and(sx("<=", "128", r), sx("<=", r, "1114111"), implies(not(eq(r, "65533")), sx(">=", size, "2")),
					implies(sx(">=", r, "2048"), sx(">=", size, "3")), implies(sx("<", r, "2048"), sx("<=", size, "2")),
					implies(and(sx("<", r, "65536"), not(eq(r, "65533"))), sx("<=", size, "3")), implies(sx(">=", r, "65536"), eq(size, "4")),
					implies(and(eq(r, "65533"), sx("<", size, "3")), eq(size, "1")))))
			if !e.bv {
				// the exact decoding (Go spec "For statements with range clause" + unicode/utf8): shortest-form sequences
				// of 2..4 bytes outside the surrogate range decode to their code point; anything else is U+FFFD of width 1
				bAt := func(d int) string {
					return sx("select", sx("s_arr", coll.T), sx("+", sx("s_off", coll.T), hk, fmt.Sprint(d)))
				}
				b1, b2, b3 := bAt(1), bAt(2), bAt(3)
				in := func(x string, lo, hi int) string {
					return and(sx("<=", fmt.Sprint(lo), x), sx("<=", x, fmt.Sprint(hi)))
				}
				cont := func(x string) string { return in(x, 128, 191) }
				v2 := and(in(b0, 194, 223), sx(">=", rem, "2"), cont(b1))
				acc3 := ite(eq(b0, "224"), in(b1, 160, 191), ite(eq(b0, "237"), in(b1, 128, 159), cont(b1)))
				v3 := and(in(b0, 224, 239), sx(">=", rem, "3"), acc3, cont(b2))
				acc4 := ite(eq(b0, "240"), in(b1, 144, 191), ite(eq(b0, "244"), in(b1, 128, 143), cont(b1)))
				v4 := and(in(b0, 240, 244), sx(">=", rem, "4"), acc4, cont(b2), cont(b3))
				f2 := sx("+", sx("*", "64", sx("-", b0, "192")), sx("-", b1, "128"))
				f3 := sx("+", sx("*", "4096", sx("-", b0, "224")), sx("*", "64", sx("-", b1, "128")), sx("-", b2, "128"))
				f4 := sx("+", sx("*", "262144", sx("-", b0, "240")), sx("*", "4096", sx("-", b1, "128")), sx("*", "64", sx("-", b2, "128")), sx("-", b3, "128"))
				e.assume(body.pc, eq(size, ite(sx("<", b0, "128"), "1", ite(v2, "2", ite(v3, "3", ite(v4, "4", "1"))))))
				e.assume(body.pc, eq(r, ite(sx("<", b0, "128"), b0, ite(v2, f2, ite(v3, f3, ite(v4, f4, "65533"))))))
			}
			e.stubsUsed["range over string: utf8 decoding (exact: shortest-form 1..4 byte sequences outside the surrogates decode to their code point, anything else is U+FFFD of width 1)"] = true
			if valObj != nil {
				e.declVar(body, valObj, Value{r, types.Typ[types.Rune]})
			}
			body.vars[rangeWidthKey] = Value{size, types.Typ[types.Int]}
			next = e.add(hk, size)
			if !e.bv {
				// one iteration is one rune: the rune count of the prefix grows by one (see utf8.RuneCountInString)
				e.declareFun("runecnt", []string{"(Array Int Int)", e.isort(), e.isort()}, e.isort())
				arr, off := sx("s_arr", coll.T), sx("s_off", coll.T)
				e.assume("true", eq(sx("runecnt", arr, off, e.izero()), e.izero()))
				e.assume(body.pc, eq(sx("runecnt", arr, off, next), e.add(sx("runecnt", arr, off, hk), e.ilit("1"))))
			}
		} else if keyObj != nil {
			// range over int: key typed as the int type
		}
	case *types.Map:
		kv := e.havocValue("mk", u.Key())
		if !m.all && !m.heaps[mapHasName(u)] && !e.bv && e.bound == 0 {
			// the loop does not add or remove keys: the iteration visits the keys present at entry in some order,
			// each once. The j-th key visited is mkey(j) (named rangeKeyStr(n, j) in contracts); keys at different
			// positions are different.
			fn := fmt.Sprintf("mkey!%d", ord)
			ks := e.sortOf(u.Key())
			e.declareFun(fn, []string{e.isort()}, ks)
			if e.mapKeyFn == nil {
				e.mapKeyFn = map[int]string{}
			}
			e.mapKeyFn[ord] = fn
			kv = Value{sx(fn, hk), u.Key()}
			e.assume("true", e.rangeFact(kv.T, u.Key()))
			if !e.declared["mkeydistinct:"+fn] {
				e.declared["mkeydistinct:"+fn] = true
				ki, kj := Value{sx(fn, "i!m"), u.Key()}, Value{sx(fn, "j!m"), u.Key()}
				e.assumes = append(e.assumes, fmt.Sprintf("(forall ((i!m %s) (j!m %s)) (! (=> (and (<= 0 i!m) (< i!m j!m) (< j!m %s)) (not (= %s %s))) :pattern (%s %s)))",
					e.isort(), e.isort(), length, e.keyTerm(ki), e.keyTerm(kj), ki.T, kj.T))
			}
			e.stubsUsed["range over a map that the loop does not modify: visits each key present at entry exactly once (rangeKey)"] = true
		}
		e.refBound(body, kv)
		vv, has := e.mapGet(body, coll, u, kv)
		e.assume(body.pc, has)
		if keyObj != nil {
			e.declVar(body, keyObj, kv)
		}
		if valObj != nil {
			e.declVar(body, valObj, vv)
		}
	}
	if ls != nil {
		// range loops: the seeds may mention the iteration's variables (and rangeWidth()), so they are evaluated in the body
		e.hints(body, ls.Hints)
	}
	e.evalCases(ls, body)
	lf := e.pushLoop(label, true)
	end := e.execBlock(s.Body.List, body)
	e.popLoop()
	for pi, end := range e.loopEnds(end, lf) {
		sfx := ""
		if pi > 0 {
			sfx = fmt.Sprintf("@p%d", pi)
		}
		if end != nil {
			end.vars[hidden] = Value{e.nameTerm("k", e.isort(), next), it}
			bindKey(end)
			e.checkInvariants(end, ls, ord, "inv-pres"+sfx, s.Pos())
			e.loopFrame(end, m, ord, "inv-pres"+sfx, s.Pos(), false)
			e.canary(end, fmt.Sprintf("loop%d-end%s", e.lbl(ord), sfx), s.Pos())
		}
	}
	outs := append([]*State{exit}, lf.breaks...)
	return e.merge(outs)
}

// loopFrame: in a unit with an explicit modifies clause and `opt loopframe yes`, every loop carries the implicit
// invariant "each heap the loop writes that the contract does not list is unchanged on the references that existed at
// function entry" (stores go to memory allocated by the function itself). It is checked on entry and after the body
// like a written invariant and assumed at the loop head; without it the havoc at the loop head would forget the
// caller-visible memory and the frame obligations at the function's exit could not be discharged.
func (e *Engine) loopFrame(st *State, m *modset, ord int, kind string, p token.Pos, assume bool) {
	if st == nil || e.c == nil || !e.c.ModSet || e.c.Opts["loopframe"] == "" || e.spec > 0 || len(e.inlineStack) > 0 || e.entry == nil {
		return
	}
	allowed := map[string]bool{}
	for _, h := range e.c.Modifies {
		if h == "all" {
			return
		}
		allowed[h] = true
	}
	if m.all {
		return
	}
	var hs []string
	for h := range m.heaps {
		if !allowed[h] && !strings.HasPrefix(h, "!epoch:") {
			hs = append(hs, h)
		}
	}
	sort.Strings(hs)
	for _, h := range hs {
		srt := e.heapSort(h)
		if srt == "" {
			continue
		}
		cur := e.heapGet(st, h, srt)
		h0 := e.heapGet(e.entry, h, srt)
		if cur == h0 {
			continue
		}
		goal := fmt.Sprintf("(forall ((r!f %s)) (! (=> %s (= (select %s r!f) (select %s r!f))) :pattern ((select %s r!f))))", e.isort(), e.le("r!f", e.entry.top), cur, h0, cur)
		if assume {
			e.assume(st.pc, goal)
			continue
		}
		e.obligeNamed(st, fmt.Sprintf("%s.%d/frame:%s", kind, e.lbl(ord), h), kind, goal, p, "loop "+fmt.Sprint(ord)+" leaves heap "+h+" unchanged on the references that existed at function entry (implicit frame invariant)", "")
	}
}

// lbl: the number a loop carries in obligation names (its ordinal, relative to the statically selected switch arm).
func (e *Engine) lbl(ord int) int {
	if ord >= e.armBase {
		return ord - e.armBase
	}
	return ord
}
