package main

import (
	"bufio"
	"encoding/json"
	"flag"
	"fmt"
	"os"
	"os/exec"
	"path/filepath"
	"sort"
	"strings"
	"time"
)

// outDir is where evidence, replay files and solver work files go (GOVC_OUT overrides it for self-tests).
func outDir() string {
	if d := os.Getenv("GOVC_OUT"); d != "" {
		return d
	}
	return verifDir
}

// ---------------- lock / unproved / known findings ----------------

type lockEntry struct {
	Prop string
	Name string
	Kind string
}

func readLock() (map[string][]lockEntry, error) {
	out := map[string][]lockEntry{}
	f, err := os.Open(filepath.Join(verifDir, "obligations.lock"))
	if err != nil {
		if os.IsNotExist(err) {
			return out, nil
		}
		return nil, err
	}
	defer f.Close()
	sc := bufio.NewScanner(f)
	sc.Buffer(make([]byte, 1<<20), 1<<20)
	for sc.Scan() {
		ln := strings.TrimSpace(sc.Text())
		if ln == "" || strings.HasPrefix(ln, "#") {
			continue
		}
		parts := strings.SplitN(ln, "\t", 3)
		if len(parts) < 3 {
			continue
		}
		out[parts[0]] = append(out[parts[0]], lockEntry{parts[0], parts[2], parts[1]})
	}
	return out, nil
}

type finding struct {
	Kind       string // finding | fixed
	Prop       string
	Obligation string
	Rest       string
}

func readFindings() []finding {
	var out []finding
	data, err := os.ReadFile(filepath.Join(verifDir, "known_findings.txt"))
	if err != nil {
		return nil
	}
	for _, ln := range strings.Split(string(data), "\n") {
		ln = strings.TrimSpace(ln)
		if ln == "" || strings.HasPrefix(ln, "#") {
			continue
		}
		kind, rest, ok := strings.Cut(ln, ":")
		if !ok {
			continue
		}
		f := finding{Kind: strings.TrimSpace(kind), Rest: strings.TrimSpace(rest)}
		for _, tok := range splitFields(rest) {
			if v, ok := strings.CutPrefix(tok, "property="); ok {
				f.Prop = v
			}
			if v, ok := strings.CutPrefix(tok, "obligation="); ok {
				f.Obligation = strings.Trim(v, "\"")
			}
		}
		out = append(out, f)
	}
	return out
}

// splitFields splits on spaces outside double quotes.
func splitFields(s string) []string {
	var out []string
	var cur strings.Builder
	q := false
	for _, c := range s {
		switch {
		case c == '"':
			q = !q
			cur.WriteRune(c)
		case c == ' ' && !q:
			if cur.Len() > 0 {
				out = append(out, cur.String())
				cur.Reset()
			}
		default:
			cur.WriteRune(c)
		}
	}
	if cur.Len() > 0 {
		out = append(out, cur.String())
	}
	return out
}

func readUnproved() map[string]string {
	out := map[string]string{}
	data, err := os.ReadFile(filepath.Join(verifDir, "unproved.txt"))
	if err != nil {
		return out
	}
	for _, ln := range strings.Split(string(data), "\n") {
		ln = strings.TrimSpace(ln)
		if ln == "" || strings.HasPrefix(ln, "#") {
			continue
		}
		name, reason, _ := strings.Cut(ln, "\t")
		out[strings.TrimSpace(name)] = strings.TrimSpace(reason)
	}
	return out
}

func contractKind(k string) bool {
	switch k {
	case "post", "inv-init", "inv-pres", "dec", "frame", "lemma", "commutes":
		return true
	}
	return false
}

// ---------------- property check ----------------

type propRun struct {
	Prop    string
	Units   []*UnitResult
	Obligs  []*Oblig
	Canary  []*Oblig
	LoadMs  int64
	SolveMs int64
}

func unitsFor(w *World, prop string) []*unitRef {
	var out []*unitRef
	var paths []string
	for p := range w.Pkgs {
		paths = append(paths, p)
	}
	sort.Strings(paths)
	for _, p := range paths {
		pk := w.Pkgs[p]
		for _, c := range pk.Contracts {
			for _, pr := range c.Props {
				if pr == prop {
					out = append(out, &unitRef{pk, c})
					break
				}
			}
		}
	}
	return out
}

type unitRef struct {
	pk *Pkg
	c  *Contract
}

func runProperty(w *World, prop string, timeout time.Duration, all bool, workdir string) *propRun {
	pr := &propRun{Prop: prop}
	refs := unitsFor(w, prop)
	t0 := time.Now()
	for _, r := range refs {
		ur := runUnit(w, r.pk, r.c)
		// keep only this property's obligations (and the unit's canaries)
		var mine []*Oblig
		for _, o := range ur.Obligs {
			if o.Prop == prop || o.Canary {
				mine = append(mine, o)
			}
		}
		ur.Obligs = mine
		pr.Units = append(pr.Units, ur)
	}
	// solve everything with one shared worker pool
	type job struct {
		u *UnitResult
	}
	solveUnits(pr.Units, solveOpts{timeout: timeout, all: all, workdir: filepath.Join(workdir, prop), par: solverPar()})
	for _, ur := range pr.Units {
		for _, o := range ur.Obligs {
			if o.Canary {
				pr.Canary = append(pr.Canary, o)
			} else {
				pr.Obligs = append(pr.Obligs, o)
			}
		}
	}
	pr.SolveMs = time.Since(t0).Milliseconds()
	return pr
}

type violation struct {
	Oblig   string
	Reason  string
	Replay  string
	NoInput bool
}

func cmdCheck(args []string) int {
	fs := flag.NewFlagSet("check", flag.ExitOnError)
	prop := fs.String("p", "", "property id")
	tier := fs.String("tier", "quick", "quick|thorough")
	_ = fs.Parse(args)
	if *prop == "" {
		fmt.Fprintln(os.Stderr, "check: -p required")
		return 2
	}
	if t := os.Getenv("VERIF_TIER"); t != "" && *tier == "" {
		*tier = t
	}
	seed := 0
	fmt.Sscan(os.Getenv("VERIF_SEED"), &seed)
	start := time.Now()
	timeout := 20 * time.Second
	all := false
	if *tier == "thorough" {
		timeout = 90 * time.Second
		all = true
	}
	t0 := time.Now()
	w, err := loadWorld(repoDir, nil)
	if err != nil {
		// A tree that does not load (type error in contracts after a code change) cannot be verified.
		fmt.Fprintln(os.Stderr, "govc: load failed:", err)
		rp := writeReplay(*prop, "load", map[string]any{"obligation": "load", "error": err.Error(), "note": "the contracts no longer type-check against the working tree; every obligation of this property is undischarged"})
		fmt.Printf("VIOLATION property=%s replay=%s no-failing-input-found\n", *prop, rp)
		writeEvidence(*prop, *tier, seed, nil, nil, []violation{{Oblig: "load", Reason: err.Error()}}, nil, nil, time.Since(start), nil)
		return 1
	}
	loadMs := time.Since(t0).Milliseconds()
	work := filepath.Join(outDir(), "work")
	_ = os.RemoveAll(filepath.Join(work, *prop))
	pr := runProperty(w, *prop, timeout, all, work)
	pr.LoadMs = loadMs
	lock, err := readLock()
	if err != nil {
		fmt.Fprintln(os.Stderr, "govc: lock:", err)
		return 2
	}
	findings := readFindings()
	unproved := readUnproved()

	if len(pr.Units) == 0 {
		fmt.Fprintf(os.Stderr, "govc: no unit carries property %s\n", *prop)
		return 2
	}
	var viols []violation
	var known []string
	knownObl := map[string]bool{}
	var unprovedSeen []string
	var overflowAssumed []string
	seen := map[string]*Oblig{}
	discharged := 0
	claimed := 0
	// unit errors
	for _, u := range pr.Units {
		if u.Err != "" {
			viols = append(viols, violation{Oblig: u.Name + "/analysable", Reason: "unit is no longer inside the verifier's subset: " + u.Err, NoInput: true})
		}
	}
	for _, o := range pr.Obligs {
		seen[o.Name] = o
		if reason, ok := unproved[o.Name]; ok {
			unprovedSeen = append(unprovedSeen, o.Name+" — "+reason+" (status now: "+o.Status+")")
			continue
		}
		if o.Kind == "ovf" && o.Status != "unsat" {
			// advisory: 64-bit arithmetic is treated as mathematical where absence of overflow is not proved
			overflowAssumed = append(overflowAssumed, fmt.Sprintf("%s at %s", o.Name, o.Pos))
			continue
		}
		claimed++
		if o.Status == "unsat" {
			discharged++
			continue
		}
		// known finding?
		isKnown := false
		for _, f := range findings {
			if f.Kind == "finding" && f.Prop == *prop && f.Obligation == o.Name {
				known = append(known, fmt.Sprintf("KNOWN-FINDING: property=%s %s %s", *prop, o.Name, f.Rest))
				isKnown = true
				knownObl[o.Name] = true
			}
		}
		if isKnown {
			// a recorded finding is reported on its own line and is not part of what the check claims as proved
			claimed--
			continue
		}
		v := violation{Oblig: o.Name, Reason: fmt.Sprintf("obligation not discharged (%s by %s): %s at %s", o.Status, o.Solver, o.Desc, o.Pos)}
		viols = append(viols, v)
	}
	// missing locked contract obligations
	for _, le := range lock[*prop] {
		if _, ok := seen[le.Name]; !ok && contractKind(le.Kind) {
			if _, skip := unproved[le.Name]; skip {
				continue
			}
			viols = append(viols, violation{Oblig: le.Name, Reason: "locked contract obligation is no longer generated (the unit or its contract stopped applying)", NoInput: true})
		}
	}
	// vacuity
	vacuous := 0
	for _, c := range pr.Canary {
		if c.Status == "unsat" {
			vacuous++
			fmt.Fprintf(os.Stderr, "govc: VACUOUS unit: canary %s is provable (contradictory assumptions)\n", c.Name)
		}
	}
	// replay
	for i := range viols {
		v := &viols[i]
		o := seen[v.Oblig]
		rp := map[string]any{"property": *prop, "obligation": v.Oblig, "reason": v.Reason}
		if o != nil {
			rp["position"] = o.Pos
			rp["description"] = o.Desc
			rp["smt_query"] = o.Query
			var outs []map[string]any
			for _, t := range o.Tried {
				outs = append(outs, map[string]any{"solver": t.Solver, "status": t.Status, "ms": t.Ms, "output": t.Output})
			}
			rp["solver_outputs"] = outs
			found := tryReplay(w, pr, o, rp)
			v.NoInput = !found
		} else {
			v.NoInput = true
		}
		v.Replay = writeReplay(*prop, v.Oblig, rp)
	}
	for _, k := range known {
		fmt.Println(k)
	}
	for _, v := range viols {
		sfx := ""
		if v.NoInput {
			sfx = " no-failing-input-found"
		}
		fmt.Printf("VIOLATION property=%s replay=%s%s\n", *prop, v.Replay, sfx)
		fmt.Fprintf(os.Stderr, "  %s: %s\n", v.Oblig, v.Reason)
	}
	for _, oa := range overflowAssumed {
		unprovedSeen = append(unprovedSeen, oa+" — 64-bit overflow not excluded; arithmetic treated as mathematical there (advisory obligation, not claimed)")
	}
	corpusBad := false
	if *tier == "thorough" && len(viols) == 0 && os.Getenv("GOVC_REPO") == "" {
		// thorough tier: the check is also run against the must-fail / must-pass corpus of this property (each patch
		// applied to a scratch worktree of /repo): a check that no longer detects a change it used to detect, or that
		// alarms on a behaviour-preserving rewrite, is reported as a check error (exit 2), never as a property verdict
		corpusEvidence, corpusBad = runCorpus(*prop)
	}
	writeEvidence(*prop, *tier, seed, pr, lock[*prop], viols, known, knownObl, time.Since(start), unprovedSeen)
	if os.Getenv("GOVC_SLOW") != "" {
		allO := append(append([]*Oblig{}, pr.Obligs...), pr.Canary...)
		sort.Slice(allO, func(i, j int) bool { return allO[i].Ms > allO[j].Ms })
		for i := 0; i < 8 && i < len(allO); i++ {
			fmt.Fprintf(os.Stderr, "  slow: %6dms %-8s %s\n", allO[i].Ms, allO[i].Status, allO[i].Name)
		}
	}
	fmt.Fprintf(os.Stderr, "govc: %s %s: %d units, %d obligations claimed, %d discharged, %d violations, %d known findings, %d unproved(not claimed), load %dms, gen+solve %dms\n",
		*prop, *tier, len(pr.Units), claimed, discharged, len(viols), len(known), len(unprovedSeen), pr.LoadMs, pr.SolveMs)
	if len(viols) > 0 {
		// a failed obligation is the verdict; an unreachable exit (e.g. every path of the unit now ends in the panic
		// the failed obligation is about) is then a consequence, not a defect of the check
		return 1
	}
	if vacuous > 0 {
		return 2
	}
	if corpusBad {
		fmt.Fprintf(os.Stderr, "govc: %s thorough: the must-fail/must-pass corpus is not handled as recorded (see evidence coverage.corpus)\n", *prop)
		return 2
	}
	return 0
}

// corpusEvidence is filled by the thorough tier (runCorpus) and written into the evidence file.
var corpusEvidence map[string]any

// runCorpus runs tools/selftest.sh for the property and summarises its output.
func runCorpus(prop string) (map[string]any, bool) {
	cmd := exec.Command(filepath.Join(verifDir, "tools", "selftest.sh"), prop+"_")
	cmd.Dir = verifDir
	cmd.Env = append(os.Environ(), "GOFLAGS=-mod=mod", "GOPROXY=off")
	out, _ := cmd.CombinedOutput()
	res := map[string]any{"command": "tools/selftest.sh " + prop + "_"}
	var lines []string
	detected, missed, quiet, alarms, skipped := 0, 0, 0, 0, 0
	for _, ln := range strings.Split(string(out), "\n") {
		ln = strings.TrimSpace(ln)
		if ln == "" {
			continue
		}
		if len(ln) > 200 {
			ln = ln[:200]
		}
		switch {
		case strings.HasPrefix(ln, "ok ") && strings.Contains(ln, ": detected"):
			detected++
		case strings.HasPrefix(ln, "ok ") && strings.Contains(ln, ": no alarm"):
			quiet++
		case strings.HasPrefix(ln, "MISS"):
			missed++
		case strings.HasPrefix(ln, "FALSE-ALARM"):
			alarms++
		case strings.HasPrefix(ln, "SKIP"):
			skipped++
		default:
			continue
		}
		lines = append(lines, ln)
	}
	res["mutants_detected"] = detected
	res["mutants_missed"] = missed
	res["harmless_quiet"] = quiet
	res["harmless_alarms"] = alarms
	res["skipped"] = skipped
	res["lines"] = lines
	return res, missed > 0 || alarms > 0
}

func writeReplay(prop, oblig string, body map[string]any) string {
	dir := filepath.Join(outDir(), "replays", prop)
	_ = os.MkdirAll(dir, 0o755)
	p := filepath.Join(dir, sanitize(oblig)+".json")
	data, _ := json.MarshalIndent(body, "", " ")
	_ = os.WriteFile(p, data, 0o644)
	return p
}

func writeEvidence(prop, tier string, seed int, pr *propRun, lock []lockEntry, viols []violation, known []string, knownObl map[string]bool, wall time.Duration, unproved []string) {
	ev := map[string]any{"property_id": prop, "tier": tier, "seed": seed, "level": "proof", "wall_s": wall.Seconds(), "violations": len(viols)}
	cov := map[string]any{}
	cov["checker_cmd"] = fmt.Sprintf("/verif/bin/govc check -p %s -tier %s", prop, tier)
	assumptions := []string{
		"govc's translation of the Go subset into verification conditions (mitigated by canaries, the must-fail corpus and replay)",
		"SMT solvers z3 5.1.0 (z3-new), z3 4.8.12, cvc5 1.0.3",
		"Go semantics as modelled: sequential, no data races, 64-bit int, slice/string lengths <= 2^40",
	}
	if pr != nil {
		n, d := 0, 0
		by := map[string]int{}
		var solverMs int64
		var samples []any
		var funcs, modes []string
		stubs := map[string]bool{}
		var abstracted, bounded, notes, assumed []string
		callees := map[string]bool{}
		inl := map[string]bool{}
		unp := map[string]bool{}
		knownOpen := []any{}
		for _, u := range unproved {
			unp[strings.SplitN(u, " — ", 2)[0]] = true
		}
		for _, u := range pr.Units {
			funcs = append(funcs, u.Name)
			modes = append(modes, u.Name+": "+u.Mode)
			for _, s := range u.Stubs {
				stubs[s] = true
			}
			for _, a := range u.Abstracted {
				abstracted = append(abstracted, u.Name+": "+a)
			}
			for _, a := range u.Assumed {
				assumed = append(assumed, u.Name+": assume "+a)
			}
			for _, c := range u.Callees {
				callees[c] = true
			}
			for _, c := range u.Inlined {
				inl[c] = true
			}
			notes = append(notes, u.Notes...)
			if u.Contract.Trusted {
				assumed = append(assumed, u.Name+": contract trusted (body not verified)")
			}
		}
		for _, o := range pr.Obligs {
			if unp[o.Name] || (o.Kind == "ovf" && o.Status != "unsat") {
				continue // not claimed (listed under unproved_not_claimed)
			}
			if knownObl[o.Name] && o.Status != "unsat" {
				// a recorded finding: reported on its KNOWN-FINDING line and under known_findings /
				// known_finding_obligations, not counted among the obligations claimed as proved
				// (the same accounting as the check's "claimed" count)
				knownOpen = append(knownOpen, map[string]any{"obligation": o.Name, "result": o.Status, "solver": o.Solver, "ms": o.Ms, "at": o.Pos, "what": o.Desc})
				continue
			}
			n++
			solverMs += o.Ms
			if o.Status == "unsat" {
				d++
				by[o.Solver]++
			}
			if len(samples) < 12 || o.Status != "unsat" && len(samples) < 40 {
				samples = append(samples, map[string]any{"obligation": o.Name, "result": o.Status, "solver": o.Solver, "ms": o.Ms, "at": o.Pos, "what": o.Desc})
			}
		}
		placed, failedOK := 0, 0
		for _, c := range pr.Canary {
			placed++
			if c.Status != "unsat" {
				failedOK++
			}
		}
		cov["obligations"] = n
		cov["discharged"] = d
		cov["functions_under_contract"] = funcs
		cov["integer_mode"] = modes
		cov["by_backend"] = by
		cov["solver_time_s"] = float64(solverMs) / 1000
		cov["canaries"] = map[string]int{"placed": placed, "not_provable_as_required": failedOK}
		cov["samples"] = samples
		cov["abstracted"] = abstracted
		cov["bounded"] = bounded
		cov["unproved_not_claimed"] = unproved
		cov["callee_contracts_used"] = keys(callees)
		cov["inlined_callees"] = keys(inl)
		cov["locked_obligations"] = len(lock)
		cov["known_findings"] = known
		cov["known_finding_obligations"] = knownOpen
		cov["notes"] = notes
		if corpusEvidence != nil {
			cov["corpus"] = corpusEvidence
		}
		st := keys(stubs)
		cov["stubs_used"] = st
		tb := []string{"govc VC generator (/verif/engine)", "z3-new 5.1.0 / z3 4.8.12 / cvc5 1.0.3"}
		for _, s := range st {
			tb = append(tb, "stub: "+s)
		}
		cov["trusted_base"] = tb
		assumptions = append(assumptions, assumed...)
		for _, s := range st {
			assumptions = append(assumptions, "assumed library contract: "+s)
		}
		for _, a := range abstracted {
			assumptions = append(assumptions, "over-approximated (havoc): "+a)
		}
		if txt, ok := notCovered[prop]; ok {
			cov["not_covered"] = txt
		}
	} else {
		cov["obligations"] = 0
		cov["discharged"] = 0
		cov["trusted_base"] = []string{}
		cov["evaluations"] = 1
		cov["distinct_nontrivial"] = 0
	}
	var vs []any
	for _, v := range viols {
		vs = append(vs, map[string]any{"obligation": v.Oblig, "reason": v.Reason, "replay": v.Replay, "no_failing_input_found": v.NoInput})
	}
	cov["violations_detail"] = vs
	ev["coverage"] = cov
	ev["assumptions"] = assumptions
	_ = os.MkdirAll(filepath.Join(outDir(), "evidence"), 0o755)
	data, _ := json.MarshalIndent(ev, "", " ")
	_ = os.WriteFile(filepath.Join(outDir(), "evidence", prop+".json"), data, 0o644)
}

func keys(m map[string]bool) []string {
	out := []string{}
	for k := range m {
		out = append(out, k)
	}
	sort.Strings(out)
	return out
}

var notCovered = map[string]string{}

// cmdLock regenerates obligations.lock from the current tree: every discharged obligation of every property.
func cmdLock(args []string) int {
	fs := flag.NewFlagSet("lock", flag.ExitOnError)
	only := fs.String("p", "", "comma-separated properties (default: all that have units)")
	_ = fs.Parse(args)
	w, err := loadWorld(repoDir, nil)
	if err != nil {
		fmt.Fprintln(os.Stderr, err)
		return 2
	}
	props := map[string]bool{}
	for _, pk := range w.Pkgs {
		for _, c := range pk.Contracts {
			for _, p := range c.Props {
				props[p] = true
			}
		}
	}
	old, _ := readLock()
	var want []string
	if *only != "" {
		want = strings.Split(*only, ",")
	} else {
		want = keys(props)
	}
	for _, p := range want {
		pr := runProperty(w, p, 20*time.Second, false, filepath.Join(verifDir, "work"))
		var es []lockEntry
		nope := 0
		for _, o := range pr.Obligs {
			if o.Status == "unsat" {
				es = append(es, lockEntry{p, o.Name, o.Kind})
			} else {
				nope++
				fmt.Fprintf(os.Stderr, "lock: %s NOT discharged (%s): %s\n", o.Name, o.Status, o.Desc)
			}
		}
		for _, u := range pr.Units {
			if u.Err != "" {
				fmt.Fprintf(os.Stderr, "lock: unit %s: %s\n", u.Name, u.Err)
			}
		}
		old[p] = es
		fmt.Fprintf(os.Stderr, "lock: %s: %d locked, %d open\n", p, len(es), nope)
	}
	var b strings.Builder
	b.WriteString("# property\\tkind\\tobligation — discharged on the reference tree; regenerated only by `govc lock`\n")
	for _, p := range keys(func() map[string]bool {
		m := map[string]bool{}
		for k := range old {
			m[k] = true
		}
		return m
	}()) {
		es := old[p]
		sort.Slice(es, func(i, j int) bool { return es[i].Name < es[j].Name })
		for _, e := range es {
			fmt.Fprintf(&b, "%s\t%s\t%s\n", p, e.Kind, e.Name)
		}
	}
	if err := os.WriteFile(filepath.Join(verifDir, "obligations.lock"), []byte(b.String()), 0o644); err != nil {
		fmt.Fprintln(os.Stderr, err)
		return 2
	}
	return 0
}

func cmdReplay(args []string) int {
	if len(args) < 1 {
		fmt.Fprintln(os.Stderr, "usage: govc replay <file>")
		return 2
	}
	data, err := os.ReadFile(args[0])
	if err != nil {
		fmt.Fprintln(os.Stderr, err)
		return 2
	}
	var rp map[string]any
	if err := json.Unmarshal(data, &rp); err != nil {
		fmt.Fprintln(os.Stderr, err)
		return 2
	}
	fmt.Printf("obligation: %v\nreason: %v\n", rp["obligation"], rp["reason"])
	if t, ok := rp["go_test"].(string); ok && t != "" {
		pkgDir, _ := rp["go_test_pkg_dir"].(string)
		out, failed := runOverlayTest(pkgDir, t)
		fmt.Println(out)
		if failed {
			fmt.Println("replay: the failing input still fails on the current tree")
			return 1
		}
		fmt.Println("replay: the input no longer fails")
		return 0
	}
	fmt.Println("no concrete input recorded (no-failing-input-found); solver output is in the file")
	return 1
}

func cmdSelftest(args []string) int { return 2 }
