package main

import (
	"fmt"
	"go/ast"
	"go/types"
	"os"
	"path/filepath"
	"sort"
	"strings"
)

// Map-range units (DESIGN 2.6, C30). Go leaves the iteration order of `for k, v := range m` over a map
// unspecified, so an artefact is deterministic only if every such loop on the way to it is insensitive to the
// order. A map-range unit
//
//	//@ maploop FUNC N
//	//@   props C30
//
// takes the N-th map-range loop (source order, 0-based) of FUNC, starts from an arbitrary state (every variable in
// scope and the whole heap unknown), picks two arbitrary distinct keys with their values, executes the body for
// them in both orders, and obliges that every variable and heap the body can modify ends up the same. By induction
// over adjacent transpositions the loop's final state is then the same for every iteration order.
// The check of C30 also lists every map-range loop in the anchored files that has no such unit.

type mapLoop struct {
	pk    *Pkg
	fn    string // unit name of the enclosing function
	decl  *ast.FuncDecl
	ord   int
	stmt  *ast.RangeStmt
	pos   string
	inLit bool
}

// mapLoopsOf lists the map-range loops of the given files of a package, in source order per function.
func mapLoopsOf(pk *Pkg, files map[string]bool) []*mapLoop {
	var out []*mapLoop
	for _, f := range pk.Files {
		fname := filepath.Base(pk.Fset.Position(f.Pos()).Filename)
		if files != nil && !files[fname] {
			continue
		}
		if strings.HasSuffix(fname, "_test.go") || strings.HasSuffix(fname, "_verif.go") {
			continue
		}
		for _, d := range f.Decls {
			fd, ok := d.(*ast.FuncDecl)
			if !ok || fd.Body == nil {
				continue
			}
			name := fd.Name.Name
			if fd.Recv != nil && len(fd.Recv.List) > 0 {
				t := fd.Recv.List[0].Type
				if st, ok := t.(*ast.StarExpr); ok {
					if id, ok := st.X.(*ast.Ident); ok {
						name = "(*" + id.Name + ")." + name
					}
				} else if id, ok := t.(*ast.Ident); ok {
					name = id.Name + "." + name
				}
			}
			ord := 0
			ast.Inspect(fd.Body, func(n ast.Node) bool {
				rs, ok := n.(*ast.RangeStmt)
				if !ok {
					return true
				}
				tv, ok := pk.Info.Types[rs.X]
				if !ok {
					return true
				}
				if _, isMap := types.Unalias(tv.Type).Underlying().(*types.Map); isMap {
					p := pk.Fset.Position(rs.Pos())
					out = append(out, &mapLoop{pk: pk, fn: name, decl: fd, ord: ord, stmt: rs,
						pos: fmt.Sprintf("%s:%d", relPath(p.Filename), p.Line)})
					ord++
				}
				return true
			})
		}
	}
	sort.Slice(out, func(i, j int) bool { return out[i].pos < out[j].pos })
	return out
}

func relPath(p string) string {
	if r, err := filepath.Rel(repoDir, p); err == nil {
		return r
	}
	return p
}

func cmdMapRanges(args []string) {
	w, err := loadWorld(repoDir, nil)
	if err != nil {
		fmt.Fprintln(os.Stderr, err)
		os.Exit(2)
	}
	var paths []string
	for p := range w.Pkgs {
		paths = append(paths, p)
	}
	sort.Strings(paths)
	for _, p := range paths {
		for _, ml := range mapLoopsOf(w.Pkgs[p], nil) {
			fmt.Printf("%s %s.%s #%d\n", ml.pos, pkgShort(p), ml.fn, ml.ord)
		}
	}
}

// findMapLoop resolves "FUNC/maploop N".
func findMapLoop(pk *Pkg, name string) (*mapLoop, string) {
	fn, ords, ok := strings.Cut(name, "/maploop ")
	if !ok {
		return nil, "bad map-loop unit name " + name
	}
	n := -1
	fmt.Sscan(strings.TrimSpace(ords), &n)
	for _, ml := range mapLoopsOf(pk, nil) {
		if ml.fn == strings.TrimSpace(fn) && ml.ord == n {
			return ml, ""
		}
	}
	return nil, fmt.Sprintf("no map-range loop #%d in %s", n, fn)
}

// freeVars: variables used in n that are declared outside it (not package-level).
func (e *Engine) freeVars(n ast.Node) []*types.Var {
	seen := map[*types.Var]bool{}
	var out []*types.Var
	ast.Inspect(n, func(x ast.Node) bool {
		id, ok := x.(*ast.Ident)
		if !ok {
			return true
		}
		v, ok := e.pk.Info.Uses[id].(*types.Var)
		if !ok || v.IsField() || v.Pkg() == nil || v.Parent() == v.Pkg().Scope() {
			return true
		}
		if v.Pos() >= n.Pos() && v.Pos() < n.End() {
			return true
		}
		if !seen[v] {
			seen[v] = true
			out = append(out, v)
		}
		return true
	})
	sort.Slice(out, func(i, j int) bool { return out[i].Pos() < out[j].Pos() })
	return out
}

// sortedAfterCollect: the loop only appends the key (or stores it at a running index) into a local slice that the
// statements right after the loop sort before anything else reads it.
func (e *Engine) sortedAfterCollect(ml *mapLoop) (string, bool) {
	rs := ml.stmt
	keyID, _ := rs.Key.(*ast.Ident)
	if keyID == nil || rs.Value != nil && !isBlank(rs.Value) {
		return "the loop must use only the key", false
	}
	var target string
	switch len(rs.Body.List) {
	case 1:
		as, ok := rs.Body.List[0].(*ast.AssignStmt)
		if !ok || len(as.Lhs) != 1 || len(as.Rhs) != 1 {
			return "body is not a single append", false
		}
		call, ok := as.Rhs[0].(*ast.CallExpr)
		if !ok || exprStr(call.Fun) != "append" || len(call.Args) != 2 || exprStr(call.Args[0]) != exprStr(as.Lhs[0]) {
			return "body is not `x = append(x, key)`", false
		}
		arg := exprStr(call.Args[1])
		if arg != keyID.Name && !strings.HasSuffix(arg, "("+keyID.Name+")") {
			return "the appended value is not the key", false
		}
		target = exprStr(as.Lhs[0])
	case 2:
		as, ok := rs.Body.List[0].(*ast.AssignStmt)
		inc, ok2 := rs.Body.List[1].(*ast.IncDecStmt)
		if !ok || !ok2 || len(as.Lhs) != 1 {
			return "body is not `x[i] = key; i++`", false
		}
		ix, ok := as.Lhs[0].(*ast.IndexExpr)
		if !ok || exprStr(ix.Index) != exprStr(inc.X) {
			return "body is not `x[i] = key; i++`", false
		}
		rhs := exprStr(as.Rhs[0])
		if rhs != keyID.Name && !strings.HasSuffix(rhs, "("+keyID.Name+")") {
			return "the stored value is not the key", false
		}
		target = exprStr(ix.X)
	default:
		return "body has more than two statements", false
	}
	// the statement after the loop must sort the target
	var next ast.Stmt
	ast.Inspect(ml.decl.Body, func(n ast.Node) bool {
		var list []ast.Stmt
		switch b := n.(type) {
		case *ast.BlockStmt:
			list = b.List
		case *ast.CaseClause:
			list = b.Body
		}
		for i, s := range list {
			if s == ast.Stmt(rs) && i+1 < len(list) {
				next = list[i+1]
			}
		}
		return true
	})
	es, ok := next.(*ast.ExprStmt)
	if !ok {
		return "the loop is not followed by a sort", false
	}
	call, ok := es.X.(*ast.CallExpr)
	if !ok || len(call.Args) == 0 || exprStr(call.Args[0]) != target {
		return "the loop is not followed by a sort of " + target, false
	}
	switch exprStr(call.Fun) {
	case "slices.Sort", "sort.Strings", "sort.Ints", "sort.Slice", "sort.SliceStable":
		return target, true
	}
	return "the loop is not followed by a sort of " + target, false
}

func isBlank(x ast.Expr) bool {
	id, ok := x.(*ast.Ident)
	return ok && id.Name == "_"
}

// runMapLoop generates the order-insensitivity obligations of a map-range unit.
func (e *Engine) runMapLoop(pk *Pkg, c *Contract) {
	ml, errs := findMapLoop(pk, c.Name)
	if ml == nil {
		panic(unsupportedErr{errs})
	}
	rs := ml.stmt
	defer func() {
		// the unit starts from an arbitrary state, so the body's safety conditions (which hold only in reachable
		// states and belong to other properties) are not obligations of this unit
		var keep []*Oblig
		for _, o := range e.obligs {
			if o.Kind == "post" || o.Kind == "canary" {
				keep = append(keep, o)
			}
		}
		e.obligs = keep
	}()
	st := &State{pc: "true", vars: map[any]Value{}, heaps: map[string]string{}}
	st.top = e.fresh("top", e.isort())
	e.assume("true", e.le(e.izero(), st.top))
	fr := &frame{fn: c.Name, contract: c, decl: ml.decl}
	e.fr = fr
	e.prepass(ml.decl.Body)
	if c.Opts["sorted"] != "" {
		what, ok := e.sortedAfterCollect(ml)
		goal := "true"
		if !ok {
			goal = "false"
		}
		e.obligeNamed(st, "collect-then-sort", "post", goal, rs.Pos(), "the loop only collects the keys into a slice that is sorted right after it ("+what+")", "")
		e.stubsUsed["collect-then-sort: the sort that follows the loop orders distinct keys uniquely"] = true
		return
	}
	for _, v := range e.freeVars(rs) {
		val := e.havocValue("in_"+v.Name(), v.Type())
		e.refBound(st, val)
		if e.boxed[v] {
			e.declVar(st, v, val)
		} else {
			st.vars[v] = val
		}
	}
	e.entry = st.clone()
	for _, a := range c.Assumes {
		_ = a
	}
	m := e.ev(rs.X, st)
	mt := types.Unalias(m.Typ).Underlying().(*types.Map)
	pick := func(tag string) (Value, Value) {
		k := e.havocValue(tag+"k", mt.Key())
		e.refBound(st, k)
		v, has := e.mapGet(st, m, mt, k)
		e.assume("true", has)
		return k, v
	}
	k1, v1 := pick("a")
	k2, v2 := pick("b")
	e.assume("true", not(eq(e.keyTerm(k1), e.keyTerm(k2))))
	var keyObj, valObj types.Object
	bind := func(s *State, k, v Value) {
		if id, ok := rs.Key.(*ast.Ident); ok && id.Name != "_" {
			if rs.Tok.String() == ":=" {
				keyObj = pk.Info.Defs[id]
				e.declVar(s, keyObj, k)
			} else {
				e.assign(rs.Key, k, s)
			}
		}
		if rs.Value != nil {
			if id, ok := rs.Value.(*ast.Ident); ok && id.Name != "_" {
				if rs.Tok.String() == ":=" {
					valObj = pk.Info.Defs[id]
					e.declVar(s, valObj, v)
				} else {
					e.assign(rs.Value, v, s)
				}
			}
		}
	}
	n := 0
	run := func(s0 *State, k, v Value) *State {
		if s0 == nil {
			return nil
		}
		s := s0.clone()
		bind(s, k, v)
		nret := len(fr.returns)
		lf := e.pushLoop("", true)
		end := e.execBlock(rs.Body.List, s)
		e.popLoop()
		end = e.merge(append([]*State{end}, lf.continues...))
		for _, b := range lf.breaks {
			n++
			e.obligeNamed(b, fmt.Sprintf("no-break#%d", n), "post", "false", rs.Pos(), "the body does not leave the loop early (an early exit makes the result depend on the order)", "")
		}
		for _, r := range fr.returns[nret:] {
			n++
			e.obligeNamed(r, fmt.Sprintf("no-break#%d", n), "post", "false", rs.Pos(), "the body does not return from inside the loop (an early exit makes the result depend on the order)", "")
		}
		fr.returns = fr.returns[:nret]
		return end
	}
	s12 := run(run(st, k1, v1), k2, v2)
	s21 := run(run(st, k2, v2), k1, v1)
	if s12 == nil || s21 == nil {
		return
	}
	both := s12.clone()
	both.pc = and(s12.pc, s21.pc)
	// variables
	ms := e.modifiedIn(rs.Body)
	var objs []types.Object
	for o := range ms.vars {
		if o == keyObj || o == valObj {
			continue
		}
		if o.Pos() >= rs.Pos() && o.Pos() < rs.End() {
			continue
		}
		objs = append(objs, o)
	}
	sort.Slice(objs, func(i, j int) bool { return objs[i].Pos() < objs[j].Pos() })
	for _, o := range objs {
		a, okA := s12.vars[o]
		b, okB := s21.vars[o]
		if !okA || !okB {
			continue
		}
		if e.boxed[o] {
			continue // compared through the heaps
		}
		e.obligeNamed(both, "same:"+o.Name(), "post", eq(a.T, b.T), rs.Pos(), "variable "+o.Name()+" ends up the same for both orders of two iterations", "")
	}
	// heaps
	if s12.epoch != st.epoch || s21.epoch != st.epoch {
		e.obligeNamed(both, "same:heap", "post", "false", rs.Pos(), "the body calls code whose effect on memory is unknown to the verifier; order-insensitivity is not established", "")
		return
	}
	names := map[string]bool{}
	for h := range s12.heaps {
		names[h] = true
	}
	for h := range s21.heaps {
		names[h] = true
	}
	var hs []string
	for h := range names {
		if !strings.HasPrefix(h, "!epoch:") {
			hs = append(hs, h)
		}
	}
	sort.Strings(hs)
	for _, h := range hs {
		srt := e.heapSort(h)
		if srt == "" {
			continue
		}
		a := e.heapGet(s12, h, srt)
		b := e.heapGet(s21, h, srt)
		if a == b {
			continue
		}
		e.obligeNamed(both, "same:"+h, "post", eq(a, b), rs.Pos(), "heap "+h+" ends up the same for both orders of two iterations", "")
	}
	e.canary(both, "maploop", rs.Pos())
}
