package main

import (
	"fmt"
	"go/ast"
	"go/types"
	"os"
	"path/filepath"
	"sort"
	"strings"
)

// Map-range units (DESIGN 2.6, C30). Go leaves the iteration order of `for k, v := range m` over a map
// unspecified, so an artefact is deterministic only if every such loop on the way to it is insensitive to the
// order. A map-range unit
//
//	//@ maploop FUNC N
//	//@   props C30
//
// takes the N-th map-range loop (source order, 0-based) of FUNC, starts from an arbitrary state (every variable in
// scope and the whole heap unknown), picks two arbitrary distinct keys with their values, executes the body for
// them in both orders, and obliges that every variable and heap the body can modify ends up the same. By induction
// over adjacent transpositions the loop's final state is then the same for every iteration order.
// The check of C30 also lists every map-range loop in the anchored files that has no such unit.

type mapLoop struct {
	pk    *Pkg
	fn    string // unit name of the enclosing function
	decl  *ast.FuncDecl
	ord   int
	stmt  *ast.RangeStmt
	pos   string
	inLit bool
}

// mapLoopsOf lists the map-range loops of the given files of a package, in source order per function.
func mapLoopsOf(pk *Pkg, files map[string]bool) []*mapLoop {
	var out []*mapLoop
	for _, f := range pk.Files {
		fname := filepath.Base(pk.Fset.Position(f.Pos()).Filename)
		if files != nil && !files[fname] {
			continue
		}
		if strings.HasSuffix(fname, "_test.go") || strings.HasSuffix(fname, "_verif.go") {
			continue
		}
		for _, d := range f.Decls {
			fd, ok := d.(*ast.FuncDecl)
			if !ok || fd.Body == nil {
				continue
			}
			name := fd.Name.Name
			if fd.Recv != nil && len(fd.Recv.List) > 0 {
				t := fd.Recv.List[0].Type
				if st, ok := t.(*ast.StarExpr); ok {
					if id, ok := st.X.(*ast.Ident); ok {
						name = "(*" + id.Name + ")." + name
					}
				} else if id, ok := t.(*ast.Ident); ok {
					name = id.Name + "." + name
				}
			}
			ord := 0
			ast.Inspect(fd.Body, func(n ast.Node) bool {
				rs, ok := n.(*ast.RangeStmt)
				if !ok {
					return true
				}
				tv, ok := pk.Info.Types[rs.X]
				if !ok {
					return true
				}
				if _, isMap := types.Unalias(tv.Type).Underlying().(*types.Map); isMap {
					p := pk.Fset.Position(rs.Pos())
					out = append(out, &mapLoop{pk: pk, fn: name, decl: fd, ord: ord, stmt: rs,
						pos: fmt.Sprintf("%s:%d", relPath(p.Filename), p.Line)})
					ord++
				}
				return true
			})
		}
	}
	sort.Slice(out, func(i, j int) bool { return out[i].pos < out[j].pos })
	return out
}

func relPath(p string) string {
	if r, err := filepath.Rel(repoDir, p); err == nil {
		return r
	}
	return p
}

func cmdMapRanges(args []string) {
	w, err := loadWorld(repoDir, nil)
	if err != nil {
		fmt.Fprintln(os.Stderr, err)
		os.Exit(2)
	}
	var paths []string
	for p := range w.Pkgs {
		paths = append(paths, p)
	}
	sort.Strings(paths)
	for _, p := range paths {
		for _, ml := range mapLoopsOf(w.Pkgs[p], nil) {
			fmt.Printf("%s %s.%s #%d\n", ml.pos, pkgShort(p), ml.fn, ml.ord)
		}
	}
}

// findMapLoop resolves "FUNC/maploop N".
func findMapLoop(pk *Pkg, name string) (*mapLoop, string) {
	fn, ords, ok := strings.Cut(name, "/maploop ")
	if !ok {
		return nil, "bad map-loop unit name " + name
	}
	n := -1
	fmt.Sscan(strings.TrimSpace(ords), &n)
	for _, ml := range mapLoopsOf(pk, nil) {
		if ml.fn == strings.TrimSpace(fn) && ml.ord == n {
			return ml, ""
		}
	}
	return nil, fmt.Sprintf("no map-range loop #%d in %s", n, fn)
}

// freeVars: variables used in n that are declared outside it (not package-level).
func (e *Engine) freeVars(n ast.Node) []*types.Var {
	seen := map[*types.Var]bool{}
	var out []*types.Var
	ast.Inspect(n, func(x ast.Node) bool {
		id, ok := x.(*ast.Ident)
		if !ok {
			return true
		}
		v, ok := e.pk.Info.Uses[id].(*types.Var)
		if !ok || v.IsField() || v.Pkg() == nil || v.Parent() == v.Pkg().Scope() {
			return true
		}
		if v.Pos() >= n.Pos() && v.Pos() < n.End() {
			return true
		}
		if !seen[v] {
			seen[v] = true
			out = append(out, v)
		}
		return true
	})
	sort.Slice(out, func(i, j int) bool { return out[i].Pos() < out[j].Pos() })
	return out
}

// sortedAfterCollect: the loop only appends the key (or stores it at a running index) into a local slice that the
// statements right after the loop sort before anything else reads it.
func (e *Engine) sortedAfterCollect(ml *mapLoop) (string, bool) {
	what, _, ok := e.sortedAfterCollectCall(ml)
	return what, ok
}

func (e *Engine) sortedAfterCollectCall(ml *mapLoop) (string, *ast.CallExpr, bool) {
	rs := ml.stmt
	keyID, _ := rs.Key.(*ast.Ident)
	if keyID == nil || rs.Value != nil && !isBlank(rs.Value) {
		return "the loop must use only the key", nil, false
	}
	var target string
	switch len(rs.Body.List) {
	case 1:
		as, ok := rs.Body.List[0].(*ast.AssignStmt)
		if !ok || len(as.Lhs) != 1 || len(as.Rhs) != 1 {
			return "body is not a single append", nil, false
		}
		call, ok := as.Rhs[0].(*ast.CallExpr)
		if !ok || exprStr(call.Fun) != "append" || len(call.Args) != 2 || exprStr(call.Args[0]) != exprStr(as.Lhs[0]) {
			return "body is not `x = append(x, key)`", nil, false
		}
		arg := exprStr(call.Args[1])
		if arg != keyID.Name && !strings.HasSuffix(arg, "("+keyID.Name+")") {
			return "the appended value is not the key", nil, false
		}
		target = exprStr(as.Lhs[0])
	case 2:
		as, ok := rs.Body.List[0].(*ast.AssignStmt)
		inc, ok2 := rs.Body.List[1].(*ast.IncDecStmt)
		if !ok || !ok2 || len(as.Lhs) != 1 {
			return "body is not `x[i] = key; i++`", nil, false
		}
		ix, ok := as.Lhs[0].(*ast.IndexExpr)
		if !ok || exprStr(ix.Index) != exprStr(inc.X) {
			return "body is not `x[i] = key; i++`", nil, false
		}
		rhs := exprStr(as.Rhs[0])
		if rhs != keyID.Name && !strings.HasSuffix(rhs, "("+keyID.Name+")") {
			return "the stored value is not the key", nil, false
		}
		target = exprStr(ix.X)
	default:
		return "body has more than two statements", nil, false
	}
	// the statement after the loop must sort the target
	var next ast.Stmt
	ast.Inspect(ml.decl.Body, func(n ast.Node) bool {
		var list []ast.Stmt
		switch b := n.(type) {
		case *ast.BlockStmt:
			list = b.List
		case *ast.CaseClause:
			list = b.Body
		}
		for i, s := range list {
			if s == ast.Stmt(rs) && i+1 < len(list) {
				next = list[i+1]
			}
		}
		return true
	})
	es, ok := next.(*ast.ExprStmt)
	if !ok {
		return "the loop is not followed by a sort", nil, false
	}
	call, ok := es.X.(*ast.CallExpr)
	if !ok || len(call.Args) == 0 || exprStr(call.Args[0]) != target {
		return "the loop is not followed by a sort of " + target, nil, false
	}
	switch exprStr(call.Fun) {
	case "slices.Sort", "sort.Strings", "sort.Ints", "sort.Slice", "sort.SliceStable":
		return target, call, true
	}
	return "the loop is not followed by a sort of " + target, nil, false
}

func isBlank(x ast.Expr) bool {
	id, ok := x.(*ast.Ident)
	return ok && id.Name == "_"
}

// runMapLoop generates the order-insensitivity obligations of a map-range unit.
func (e *Engine) runMapLoop(pk *Pkg, c *Contract) {
	ml, errs := findMapLoop(pk, c.Name)
	if ml == nil {
		panic(unsupportedErr{errs})
	}
	rs := ml.stmt
	defer func() {
		// the unit starts from an arbitrary state, so the body's safety conditions (which hold only in reachable
		// states and belong to other properties) are not obligations of this unit
		var keep []*Oblig
		for _, o := range e.obligs {
			if o.Kind == "post" || o.Kind == "canary" {
				keep = append(keep, o)
			}
		}
		e.obligs = keep
	}()
	st := &State{pc: "true", vars: map[any]Value{}, heaps: map[string]string{}}
	st.top = e.fresh("top", e.isort())
	e.assume("true", e.le(e.izero(), st.top))
	fr := &frame{fn: c.Name, contract: c, decl: ml.decl}
	e.fr = fr
	e.prepass(ml.decl.Body)
	if why := c.Opts["uncovered"]; why != "" {
		e.note("NOT COVERED: map-range loop at %s: %s", ml.pos, why)
		return
	}
	if c.Opts["sorted"] != "" {
		what, call, ok := e.sortedAfterCollectCall(ml)
		goal := "true"
		if !ok {
			goal = "false"
		}
		e.obligeNamed(st, "collect-then-sort", "post", goal, rs.Pos(), "the loop only collects the keys into a slice that is sorted right after it ("+what+")", "")
		if ok {
			switch exprStr(call.Fun) {
			case "sort.Slice", "sort.SliceStable":
				// a caller-supplied order decides the result only if it orders any two distinct keys
				e.sortTotalOrder(ml, c, call, st)
			default:
				e.stubsUsed["collect-then-sort: "+exprStr(call.Fun)+" orders distinct keys of an ordered basic type uniquely"] = true
			}
		}
		return
	}
	for _, v := range e.freeVars(rs) {
		val := e.havocValue("in_"+v.Name(), v.Type())
		e.refBound(st, val)
		if e.boxed[v] {
			e.declVar(st, v, val)
		} else {
			st.vars[v] = val
		}
	}
	e.bindResults(fr, ml.decl, pk, st)
	e.entry = st.clone()
	m := e.ev(rs.X, st)
	mt := types.Unalias(m.Typ).Underlying().(*types.Map)
	pick := func(tag string) (Value, Value) {
		k := e.havocValue(tag+"k", mt.Key())
		e.refBound(st, k)
		v, has := e.mapGet(st, m, mt, k)
		e.assume("true", has)
		return k, v
	}
	k1, v1 := pick("a")
	k2, v2 := pick("b")
	e.assume("true", not(eq(e.keyTerm(k1), e.keyTerm(k2))))
	var keyObj, valObj types.Object
	bind := func(s *State, k, v Value) {
		if id, ok := rs.Key.(*ast.Ident); ok && id.Name != "_" {
			if rs.Tok.String() == ":=" {
				keyObj = pk.Info.Defs[id]
				e.declVar(s, keyObj, k)
			} else {
				e.assign(rs.Key, k, s)
			}
		}
		if rs.Value != nil {
			if id, ok := rs.Value.(*ast.Ident); ok && id.Name != "_" {
				if rs.Tok.String() == ":=" {
					valObj = pk.Info.Defs[id]
					e.declVar(s, valObj, v)
				} else {
					e.assign(rs.Value, v, s)
				}
			}
		}
	}
	if c.Opts["injective"] != "" {
		// assumed of the data: distinct keys map to distinct values
		e.assume("true", not(e.equal(v1, v2, rs.Pos())))
		e.stubsUsed["assumed of the map "+exprStr(rs.X)+": distinct keys have distinct values (opt injective)"] = true
	}
	// An iteration either falls through to the next key (exit kind 0), leaves the loop (1) or returns from the
	// function (2). The outcome of two iterations - exit kind, result values and every modified location - must be
	// the same for both orders; a loop that stops at the first matching key is order-insensitive exactly when this
	// holds (e.g. `if p(k) { return true }`).
	exitKey := &synth{"maploop:exit"}
	intT := types.Typ[types.Int]
	mark := func(s *State, kind string) *State {
		if s != nil {
			s.vars[exitKey] = Value{e.ilit(kind), intT}
		}
		return s
	}
	// run executes the body for one key from s0; it returns the fall-through state and the early-exit states
	run := func(s0 *State, k, v Value) (*State, []*State) {
		if s0 == nil {
			return nil, nil
		}
		s := s0.clone()
		bind(s, k, v)
		nret := len(fr.returns)
		lf := e.pushLoop("", true)
		end := e.execBlock(rs.Body.List, s)
		e.popLoop()
		end = e.merge(append([]*State{end}, lf.continues...))
		var exits []*State
		for _, b := range lf.breaks {
			exits = append(exits, mark(b, "1"))
		}
		for _, r := range fr.returns[nret:] {
			exits = append(exits, mark(r, "2"))
		}
		fr.returns = fr.returns[:nret]
		return end, exits
	}
	two := func(ka, va, kb, vb Value) *State {
		c1, x1 := run(st, ka, va)
		c2, x2 := run(c1, kb, vb)
		all := append(append([]*State{mark(c2, "0")}, x1...), x2...)
		return e.merge(all)
	}
	s12 := two(k1, v1, k2, v2)
	s21 := two(k2, v2, k1, v1)
	if s12 == nil || s21 == nil {
		return
	}
	both := s12.clone()
	both.pc = and(s12.pc, s21.pc)
	x12, x21 := s12.vars[exitKey], s21.vars[exitKey]
	if x12.T != x21.T {
		e.obligeNamed(both, "same:exit", "post", eq(x12.T, x21.T), rs.Pos(), "two iterations leave the loop (or the function) early in one order exactly when they do in the other", "")
	}
	for i, k := range fr.results {
		a, okA := s12.vars[k]
		b, okB := s21.vars[k]
		if obj, isObj := k.(types.Object); isObj && e.boxed[obj] {
			continue
		}
		if okA && okB && a.T != b.T {
			e.obligeNamed(both, fmt.Sprintf("same:result%d", i), "post", implies(eq(x12.T, e.ilit("2")), eq(a.T, b.T)), rs.Pos(), "a return from inside the loop yields the same value for both orders of two iterations", "")
		}
	}
	// variables
	ms := e.modifiedIn(rs.Body)
	var objs []types.Object
	for o := range ms.vars {
		if o == keyObj || o == valObj {
			continue
		}
		if o.Pos() >= rs.Pos() && o.Pos() < rs.End() {
			continue
		}
		objs = append(objs, o)
	}
	sort.Slice(objs, func(i, j int) bool { return objs[i].Pos() < objs[j].Pos() })
	for _, o := range objs {
		a, okA := s12.vars[o]
		b, okB := s21.vars[o]
		if !okA || !okB {
			continue
		}
		if e.boxed[o] {
			continue // compared through the heaps
		}
		goal := eq(a.T, b.T)
		if x12.T != e.ilit("0") {
			// after a return the function's locals are dead
			goal = or(eq(x12.T, e.ilit("2")), goal)
		}
		e.obligeNamed(both, "same:"+o.Name(), "post", goal, rs.Pos(), "variable "+o.Name()+" ends up the same for both orders of two iterations", "")
	}
	// heaps
	if s12.epoch != st.epoch || s21.epoch != st.epoch {
		e.obligeNamed(both, "same:heap", "post", "false", rs.Pos(), "the body calls code whose effect on memory is unknown to the verifier; order-insensitivity is not established", "")
		return
	}
	names := map[string]bool{}
	for h := range s12.heaps {
		names[h] = true
	}
	for h := range s21.heaps {
		names[h] = true
	}
	var hs []string
	for h := range names {
		if !strings.HasPrefix(h, "!epoch:") {
			hs = append(hs, h)
		}
	}
	sort.Strings(hs)
	for _, h := range hs {
		srt := e.heapSort(h)
		if srt == "" {
			continue
		}
		a := e.heapGet(s12, h, srt)
		b := e.heapGet(s21, h, srt)
		if a == b {
			continue
		}
		e.obligeNamed(both, "same:"+h, "post", eq(a, b), rs.Pos(), "heap "+h+" ends up the same for both orders of two iterations", "")
	}
	e.canary(both, "maploop", rs.Pos())
}

// sortTotalOrder: the keys collected from the map are sorted with a caller-supplied less function (sort.Slice).
// The sorted slice is independent of the collection order only if less decides every pair of distinct keys.
// The obligation takes two arbitrary distinct keys of the map at two arbitrary distinct positions of the slice,
// runs the real less function literal on (i, j) and on (j, i) and requires one of the two results to be true.
// What makes two keys distinct beyond their identity is given by `opt sortkey FIELD...` (for pointer keys: two
// distinct keys differ in at least one of these fields) - an assumption on the data, listed in the evidence.
func (e *Engine) sortTotalOrder(ml *mapLoop, c *Contract, call *ast.CallExpr, st *State) {
	rs := ml.stmt
	fail := func(msg string) {
		e.obligeNamed(st, "total-order", "post", "false", rs.Pos(), msg, "")
	}
	if len(call.Args) != 2 {
		fail("sort call without a less function")
		return
	}
	lit, ok := unparen(call.Args[1]).(*ast.FuncLit)
	if !ok || lit.Type.Params == nil || lit.Type.Params.NumFields() != 2 {
		fail("the less argument of the sort is not a function literal (i, j int) bool")
		return
	}
	seen := map[*types.Var]bool{}
	for _, n := range []ast.Node{rs, call} {
		for _, v := range e.freeVars(n) {
			if seen[v] {
				continue
			}
			seen[v] = true
			val := e.havocValue("in_"+v.Name(), v.Type())
			e.refBound(st, val)
			if e.boxed[v] {
				e.declVar(st, v, val)
			} else {
				st.vars[v] = val
			}
		}
	}
	e.entry = st.clone()
	m := e.ev(rs.X, st)
	mt := types.Unalias(m.Typ).Underlying().(*types.Map)
	pick := func(tag string) Value {
		k := e.havocValue(tag+"k", mt.Key())
		e.refBound(st, k)
		_, has := e.mapGet(st, m, mt, k)
		e.assume("true", has)
		return k
	}
	ka, kb := pick("a"), pick("b")
	e.assume("true", not(eq(e.keyTerm(ka), e.keyTerm(kb))))
	tv := e.ev(call.Args[0], st)
	sl, ok := types.Unalias(tv.Typ).Underlying().(*types.Slice)
	if !ok || !types.Identical(sl.Elem(), mt.Key()) {
		fail("the sorted slice does not hold the map's keys")
		return
	}
	intT := types.Typ[types.Int]
	i := Value{e.fresh("si", e.isort()), intT}
	j := Value{e.fresh("sj", e.isort()), intT}
	ln := sx("l_len", tv.T)
	e.assume("true", and(e.le(e.izero(), i.T), e.lt(i.T, ln), e.le(e.izero(), j.T), e.lt(j.T, ln), not(eq(i.T, j.T))))
	hn := elemHeapName(sl.Elem())
	srt := e.arrSort(e.arrSort(e.sortOf(sl.Elem())))
	h := e.heapGet(st, hn, srt)
	at := func(ix string) string {
		return sx("select", sx("select", h, sx("l_ref", tv.T)), e.add(sx("l_off", tv.T), ix))
	}
	e.assume("true", and(eq(at(i.T), ka.T), eq(at(j.T), kb.T)))
	// identity of keys beyond the key value itself
	// `opt sortstrings FIELD...`: string fields that less compares; Go's string order decides any two different strings
	// (a fact of the language, instantiated for the two keys - not an assumption on the data)
	identity := c.Opts["sortkey"] != ""
	if fields := strings.Fields(c.Opts["sortkey"] + " " + c.Opts["sortstrings"]); len(fields) > 0 {
		pt, ok := types.Unalias(mt.Key()).Underlying().(*types.Pointer)
		var stt *types.Struct
		if ok {
			stt, _ = pt.Elem().Underlying().(*types.Struct)
		}
		if stt == nil {
			fail("opt sortkey needs keys that are pointers to a struct")
			return
		}
		var differ []string
		for _, fname := range fields {
			var fv *types.Var
			for k := 0; k < stt.NumFields(); k++ {
				if stt.Field(k).Name() == fname {
					fv = stt.Field(k)
				}
			}
			if fv == nil {
				fail("opt sortkey: no field " + fname)
				return
			}
			fa := e.loadField(st, ka.T, pt.Elem(), fname, fv.Type())
			fb := e.loadField(st, kb.T, pt.Elem(), fname, fv.Type())
			same := e.equal(fa, fb, rs.Pos())
			differ = append(differ, not(same))
			if isString(fv.Type()) {
				// Go's string order is a strict total order
				e.declareFun("op_strlt", []string{"Str", "Str"}, "Bool")
				e.assume("true", or(same, sx("op_strlt", fa.T, fb.T), sx("op_strlt", fb.T, fa.T)))
			}
		}
		if identity {
			e.assume("true", or(differ...))
			e.stubsUsed["assumed identity of sorted keys: two distinct keys of "+exprStr(rs.X)+" differ in one of the fields "+strings.Join(fields, ", ")] = true
		}
	}
	// `opt sortinjective M...`: M is a map variable read by less; assumed of the data: it holds every sorted key and
	// gives distinct keys distinct values (e.g. the position at which a key was first entered in a work list)
	for _, name := range strings.Fields(c.Opts["sortinjective"]) {
		var mv *types.Var
		for v := range seen {
			if v.Name() == name {
				mv = v
			}
		}
		if mv == nil {
			fail("opt sortinjective: the sort does not read a variable " + name)
			return
		}
		imt, ok := types.Unalias(mv.Type()).Underlying().(*types.Map)
		if !ok || !types.Identical(imt.Key(), mt.Key()) {
			fail("opt sortinjective: " + name + " is not a map over the sorted keys")
			return
		}
		im := e.lookupVar(st, mv, rs.Pos())
		va, hasA := e.mapGet(st, im, imt, ka)
		vb, hasB := e.mapGet(st, im, imt, kb)
		e.assume("true", and(hasA, hasB, not(e.equal(va, vb, rs.Pos()))))
		e.stubsUsed["assumed of the data: "+name+" holds every key of "+exprStr(rs.X)+" and maps distinct keys to distinct values"] = true
	}
	s1 := st.clone()
	r1 := e.inlineClosure(call, lit, []Value{i, j}, s1)
	s2 := st.clone()
	r2 := e.inlineClosure(call, lit, []Value{j, i}, s2)
	if len(r1) != 1 || len(r2) != 1 {
		fail("less does not return one value")
		return
	}
	both := st.clone()
	both.pc = and(s1.pc, s2.pc)
	e.obligeNamed(both, "total-order", "post", or(r1[0].T, r2[0].T), rs.Pos(),
		"the less function of the sort that follows the loop orders any two distinct keys (otherwise equal elements keep the map's iteration order)", "")
	e.canary(both, "maploop-sort", rs.Pos())
}
