package main

import (
	"fmt"
	"go/ast"
	"go/parser"
	"go/token"
	"path/filepath"
)

// injectLitAssert finds the N-th composite literal of the given type in fd and injects the typed assertion block in
// front of the statement that contains it.
func (pk *Pkg) injectLitAssert(c *Contract, fd *ast.FuncDecl, la *LitAssert) error {
	// enumerate the literals (or, for a call assertion, the calls) in source order
	var lits []ast.Expr
	var root ast.Node = fd.Body
	if c.Clause != nil {
		root = c.Clause
	}
	ast.Inspect(root, func(n ast.Node) bool {
		if la.Call {
			if ce, ok := n.(*ast.CallExpr); ok && exprStr(ce.Fun) == la.Type {
				lits = append(lits, ce)
			}
			return true
		}
		if cl, ok := n.(*ast.CompositeLit); ok && cl.Type != nil && exprStr(cl.Type) == la.Type {
			lits = append(lits, cl)
		}
		return true
	})
	if la.Ord >= len(lits) {
		return fmt.Errorf("%s:%d: %s has no %s #%d", c.File, la.Clause.Line, c.Name, la.Type, la.Ord)
	}
	la.Node = lits[la.Ord]
	// the innermost statement list holding a statement that contains the literal
	var holder *[]ast.Stmt
	var idx int
	var visit func(list *[]ast.Stmt)
	contains := func(s ast.Stmt) bool { return s.Pos() <= la.Node.Pos() && la.Node.End() <= s.End() }
	visit = func(list *[]ast.Stmt) {
		for i, s := range *list {
			if !contains(s) {
				continue
			}
			holder, idx = list, i
			ast.Inspect(s, func(n ast.Node) bool {
				switch b := n.(type) {
				case *ast.BlockStmt:
					if b.Pos() <= la.Node.Pos() && la.Node.End() <= b.End() {
						visit(&b.List)
						return false
					}
				case *ast.CaseClause:
					if b.Pos() <= la.Node.Pos() && la.Node.End() <= b.End() {
						visit(&b.Body)
						return false
					}
				case *ast.CommClause:
					if b.Pos() <= la.Node.Pos() && la.Node.End() <= b.End() {
						visit(&b.Body)
						return false
					}
				}
				return true
			})
			return
		}
	}
	if c.Clause != nil {
		visit(&c.Clause.Body)
	} else {
		visit(&fd.Body.List)
	}
	if holder == nil {
		return fmt.Errorf("%s:%d: cannot place the literal assertion", c.File, la.Clause.Line)
	}
	src := rewriteImp(la.Clause.Text)
	x, err := parser.ParseExprFrom(pk.Fset, fmt.Sprintf("%s:%d", filepath.Base(c.File), la.Clause.Line), src, 0)
	if err != nil {
		return fmt.Errorf("%s:%d: %v (in %q)", c.File, la.Clause.Line, err, src)
	}
	la.Clause.Expr = x
	var blk *ast.BlockStmt
	if la.Call {
		blk = &ast.BlockStmt{List: []ast.Stmt{
			&ast.AssignStmt{Lhs: []ast.Expr{ast.NewIdent("_")}, Tok: token.ASSIGN, Rhs: []ast.Expr{x}},
		}}
	} else {
		la.LitID = ast.NewIdent("lit")
		blk = &ast.BlockStmt{List: []ast.Stmt{
			&ast.DeclStmt{Decl: &ast.GenDecl{Tok: token.VAR, Specs: []ast.Spec{&ast.ValueSpec{Names: []*ast.Ident{la.LitID}, Type: la.Node.(*ast.CompositeLit).Type}}}},
			&ast.AssignStmt{Lhs: []ast.Expr{ast.NewIdent("_")}, Tok: token.ASSIGN, Rhs: []ast.Expr{ast.NewIdent("lit")}},
			&ast.AssignStmt{Lhs: []ast.Expr{ast.NewIdent("_")}, Tok: token.ASSIGN, Rhs: []ast.Expr{x}},
		}}
	}
	pk.Injected[blk] = true
	nl := append([]ast.Stmt{}, (*holder)[:idx]...)
	nl = append(nl, blk)
	nl = append(nl, (*holder)[idx:]...)
	*holder = nl
	return nil
}

// litAsserts checks the unit's literal assertions for the composite literal x, whose value is v.
func (e *Engine) litAsserts(x ast.Expr, v Value, st *State) {
	if e.c == nil || len(e.c.LitAsserts) == 0 || e.spec > 0 || len(e.inlineStack) > 0 {
		return
	}
	for _, la := range e.c.LitAsserts {
		if la.Node != x {
			continue
		}
		s2 := st.clone()
		if !la.Call {
			obj := e.pk.Info.Defs[la.LitID]
			if obj == nil {
				continue
			}
			s2.vars[obj] = v
		}
		e.spec++
		g := e.ev(la.Clause.Expr, s2)
		e.spec--
		what, tag := "literal", "lit"
		if la.Call {
			what, tag = "call", "call"
		}
		e.obligeNamed(st, fmt.Sprintf("%s:%s#%d", tag, la.Type, la.Ord), "post", g.T, x.Pos(),
			fmt.Sprintf("at the %s %s #%d: %q", what, la.Type, la.Ord, la.Clause.Text), la.Clause.Prop)
	}
}
