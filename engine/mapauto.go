package main

import (
	"fmt"
	"strings"
)

// c30Files: the files whose map-range loops lie on the way from the sources to the artefact (C30 anchors plus the
// other emitter/builder/entry-point files). Every map-range loop in them is a unit of C30: either one written in
// the contract file (`//@ maploop FUNC N`) or, for a loop no contract names, an automatic unit with the default
// obligations (the body commutes for two distinct keys). A loop the verifier cannot decide is named in the contract
// file with `opt uncovered REASON`; it generates no obligation and is listed in the evidence as not covered.
var c30Files = map[string]map[string]bool{
	modPath + "/internal/compiler": {
		"emitter.go": true, "emitter_statements.go": true, "emitter_expressions.go": true, "emitter_assignment.go": true,
		"emitter_builtins.go": true, "emitter_func_store.go": true, "emitter_var_store.go": true, "emitter_util.go": true,
		"emitter_types.go": true, "builder.go": true, "builder_instructions.go": true, "checker_dependencies.go": true,
		"compilation.go": true, "compiler.go": true, "disassembler.go": true,
	},
	modPath: {"templates.go": true, "programs.go": true, "scriggo.go": true},
}

func (pk *Pkg) addAutoMapLoops() {
	files := c30Files[pk.Path]
	if files == nil {
		return
	}
	have := map[string]bool{}
	for _, c := range pk.Contracts {
		if c.MapLoop {
			have[c.Name] = true
		}
	}
	for _, ml := range mapLoopsOf(pk, files) {
		name := fmt.Sprintf("%s/maploop %d", ml.fn, ml.ord)
		if have[name] {
			continue
		}
		c := &Contract{Name: name, Pkg: pk.Path, Loops: map[int]*LoopSpec{}, File: "(automatic: map-range loop at " + ml.pos + ")", Mode: "int",
			Opts: map[string]string{"auto": "yes"}, MapLoop: true, Props: []string{"C30"}}
		if strings.Contains(ml.fn, "?") {
			continue
		}
		pk.Contracts = append(pk.Contracts, c)
	}
}
