package main

import (
	"fmt"
	"go/ast"
	"go/constant"
	"go/token"
	"go/types"
	"strings"
)

// ---------------- maps ----------------

func (e *Engine) keySort(k types.Type) string {
	if isString(k) {
		return "Int"
	}
	return e.sortOf(k)
}

func (e *Engine) keyTerm(k Value) string {
	if isString(k.Typ) {
		if lit, ok := e.strLitOf(k.T); ok {
			// literal keys get distinct ids through an injective encoding of the literal
			n := "sidlit_" + mangle(fmt.Sprintf("%x", lit))
			if !e.declared[n] {
				e.declare(n, "Int")
				e.axioms = append(e.axioms, eq(sx("sid", k.T), n))
				for other, on := range e.sidLits {
					if other != lit {
						e.axioms = append(e.axioms, not(eq(n, on)))
					}
				}
				if e.sidLits == nil {
					e.sidLits = map[string]string{}
				}
				e.sidLits[lit] = n
			}
			return n
		}
		return sx("sid", k.T)
	}
	return k.T
}

func mapHeapName(m *types.Map) string {
	return "M_" + mangle(types.TypeString(m.Key(), nil)) + "_" + mangle(types.TypeString(m.Elem(), nil))
}
func mapHasName(m *types.Map) string {
	return "MH_" + mangle(types.TypeString(m.Key(), nil)) + "_" + mangle(types.TypeString(m.Elem(), nil))
}
func mapLenName(m *types.Map) string {
	return "ML_" + mangle(types.TypeString(m.Key(), nil)) + "_" + mangle(types.TypeString(m.Elem(), nil))
}

func (e *Engine) mapSorts(mt *types.Map) (vs, hs, ls string) {
	ks := e.keySort(mt.Key())
	vs = fmt.Sprintf("(Array %s (Array %s %s))", e.isort(), ks, e.sortOf(mt.Elem()))
	hs = fmt.Sprintf("(Array %s (Array %s Bool))", e.isort(), ks)
	ls = fmt.Sprintf("(Array %s %s)", e.isort(), e.isort())
	return
}

func (e *Engine) mapGet(st *State, m Value, mt *types.Map, k Value) (Value, string) {
	vs, hs, _ := e.mapSorts(mt)
	kt := e.keyTerm(e.coerce(k, mt.Key(), st))
	hv := e.heapGet(st, mapHeapName(mt), vs)
	hh := e.heapGet(st, mapHasName(mt), hs)
	has := and(not(eq(m.T, e.izero())), sx("select", sx("select", hh, m.T), kt))
	val := sx("select", sx("select", hv, m.T), kt)
	e.assume("true", e.rangeFact(val, mt.Elem()))
	v := Value{ite(has, val, e.zero(mt.Elem()).T), mt.Elem()}
	e.refBoundHeap(st, Value{val, mt.Elem()})
	return v, has
}

func (e *Engine) mapSet(st *State, m Value, mt *types.Map, k, v Value) {
	vs, hs, ls := e.mapSorts(mt)
	kt := e.keyTerm(k)
	hv := e.heapGet(st, mapHeapName(mt), vs)
	hh := e.heapGet(st, mapHasName(mt), hs)
	hl := e.heapGet(st, mapLenName(mt), ls)
	had := sx("select", sx("select", hh, m.T), kt)
	e.heapSet(st, mapLenName(mt), ls, sx("store", hl, m.T, e.add(sx("select", hl, m.T), ite(had, e.izero(), e.ilit("1")))))
	e.heapSet(st, mapHeapName(mt), vs, sx("store", hv, m.T, sx("store", sx("select", hv, m.T), kt, v.T)))
	e.heapSet(st, mapHasName(mt), hs, sx("store", hh, m.T, sx("store", sx("select", hh, m.T), kt, "true")))
}

func (e *Engine) mapDelete(st *State, m Value, mt *types.Map, k Value) {
	_, hs, ls := e.mapSorts(mt)
	kt := e.keyTerm(k)
	hh := e.heapGet(st, mapHasName(mt), hs)
	hl := e.heapGet(st, mapLenName(mt), ls)
	had := and(not(eq(m.T, e.izero())), sx("select", sx("select", hh, m.T), kt))
	e.heapSet(st, mapLenName(mt), ls, sx("store", hl, m.T, e.sub(sx("select", hl, m.T), ite(had, e.ilit("1"), e.izero()))))
	e.heapSet(st, mapHasName(mt), hs, sx("store", hh, m.T, sx("store", sx("select", hh, m.T), kt, "false")))
}

func (e *Engine) mapInit(st *State, m Value, mt *types.Map) {
	_, hs, ls := e.mapSorts(mt)
	ks := e.keySort(mt.Key())
	hh := e.heapGet(st, mapHasName(mt), hs)
	hl := e.heapGet(st, mapLenName(mt), ls)
	e.heapSet(st, mapHasName(mt), hs, sx("store", hh, m.T, fmt.Sprintf("((as const (Array %s Bool)) false)", ks)))
	e.heapSet(st, mapLenName(mt), ls, sx("store", hl, m.T, e.izero()))
}

func (e *Engine) mapLen(st *State, m Value, mt *types.Map) string {
	_, _, ls := e.mapSorts(mt)
	hl := e.heapGet(st, mapLenName(mt), ls)
	t := ite(eq(m.T, e.izero()), e.izero(), sx("select", hl, m.T))
	e.assume("true", e.le(e.izero(), sx("select", hl, m.T)))
	return t
}

// ---------------- global tables ----------------

func (e *Engine) findGlobalInit(vr *types.Var) (ast.Expr, *Pkg) {
	pk := e.w.Pkgs[vr.Pkg().Path()]
	if pk == nil {
		return nil, nil
	}
	for _, f := range pk.Files {
		for _, d := range f.Decls {
			gd, ok := d.(*ast.GenDecl)
			if !ok || gd.Tok != token.VAR {
				continue
			}
			for _, sp := range gd.Specs {
				vs := sp.(*ast.ValueSpec)
				for i, id := range vs.Names {
					if pk.Info.Defs[id] == vr && i < len(vs.Values) && len(vs.Values) == len(vs.Names) {
						return vs.Values[i], pk
					}
				}
			}
		}
	}
	return nil, pk
}

// globalImmutable: no assignment to the variable or its elements, no address-of, anywhere in its package.
func (e *Engine) globalImmutable(vr *types.Var) bool {
	key := "immut:" + vr.Pkg().Path() + "." + vr.Name()
	if v, ok := e.w.cache[key]; ok {
		return v.(bool)
	}
	pk := e.w.Pkgs[vr.Pkg().Path()]
	ok := pk != nil
	if pk != nil {
		root := func(x ast.Expr) types.Object {
			for {
				switch y := x.(type) {
				case *ast.IndexExpr:
					x = y.X
				case *ast.SelectorExpr:
					if pk.Info.Selections[y] == nil {
						return pk.Info.ObjectOf(y.Sel)
					}
					x = y.X
				case *ast.ParenExpr:
					x = y.X
				case *ast.StarExpr:
					x = y.X
				case *ast.SliceExpr:
					x = y.X
				case *ast.Ident:
					return pk.Info.ObjectOf(y)
				default:
					return nil
				}
			}
		}
		for _, f := range pk.Files {
			ast.Inspect(f, func(n ast.Node) bool {
				switch s := n.(type) {
				case *ast.AssignStmt:
					for _, l := range s.Lhs {
						if root(l) == vr {
							ok = false
						}
					}
				case *ast.IncDecStmt:
					if root(s.X) == vr {
						ok = false
					}
				case *ast.UnaryExpr:
					if s.Op == token.AND && root(s.X) == vr {
						ok = false
					}
				case *ast.RangeStmt:
					if s.Tok == token.ASSIGN {
						if s.Key != nil && root(s.Key) == vr {
							ok = false
						}
						if s.Value != nil && root(s.Value) == vr {
							ok = false
						}
					}
				}
				return true
			})
		}
	}
	e.w.cache[key] = ok
	return ok
}

// globalFacts adds axioms about a package-level variable from its initialiser (if it is never written).
func (e *Engine) globalFacts(n string, vr *types.Var) {
	if e.w.Pkgs[vr.Pkg().Path()] == nil {
		// sentinel errors of packages outside the repository (io.EOF, os.ErrNotExist, fs.ErrInvalid, ...): non-nil, pairwise distinct
		if _, isIface := types.Unalias(vr.Type()).Underlying().(*types.Interface); isIface && (strings.HasPrefix(vr.Name(), "Err") || vr.Name() == "EOF") {
			e.stubsUsed["sentinel error "+vr.Pkg().Name()+"."+vr.Name()+": non-nil and distinct from the other sentinel errors"] = true
			e.axioms = append(e.axioms, not(eq(sx("i_tid", n), "0")))
			for _, o := range e.errGlobals {
				// same-named sentinels of different packages may be one value (os.ErrNotExist = fs.ErrNotExist)
				if !strings.HasSuffix(o, "_"+vr.Name()) {
					e.axioms = append(e.axioms, not(eq(o, n)))
				}
			}
			e.errGlobals = append(e.errGlobals, n)
		}
		return
	}
	init, pk := e.findGlobalInit(vr)
	if init == nil || pk == nil || !e.globalImmutable(vr) {
		return
	}
	e.stubsUsed["package variable "+vr.Pkg().Name()+"."+vr.Name()+" is never reassigned (checked syntactically within its package); value taken from its initialiser"] = true
	saved := e.pk
	e.pk = pk
	defer func() { e.pk = saved }()
	if tv, ok := pk.Info.Types[init]; ok && tv.Value != nil {
		v := e.constValue(tv.Value, vr.Type(), init.Pos())
		e.axioms = append(e.axioms, eq(n, v.T))
		return
	}
	switch x := unparen(init).(type) {
	case *ast.CompositeLit:
		switch u := types.Unalias(vr.Type()).Underlying().(type) {
		case *types.Slice:
			arr, cnt, ok := e.constElems(x, u.Elem(), pk)
			if !ok {
				return
			}
			tn := "GT_" + mangle(vr.Pkg().Name()+"_"+vr.Name())
			e.declare(tn, e.arrSort(e.sortOf(u.Elem())))
			e.axioms = append(e.axioms, eq(tn, arr))
			e.axioms = append(e.axioms, and(eq(sx("l_len", n), e.ilit(fmt.Sprint(cnt))), eq(sx("l_cap", n), e.ilit(fmt.Sprint(cnt))), eq(sx("l_off", n), e.izero()), e.lt(e.izero(), sx("l_ref", n))))
			e.tables[vr] = tn
		case *types.Array:
			arr, _, ok := e.constElems(x, u.Elem(), pk)
			if !ok {
				return
			}
			e.axioms = append(e.axioms, eq(n, arr))
		}
	case *ast.CallExpr:
		// []byte("...") and errors.New(...)
		if tv, ok := pk.Info.Types[x.Fun]; ok && tv.IsType() && len(x.Args) == 1 {
			if av, ok := pk.Info.Types[x.Args[0]]; ok && av.Value != nil && av.Value.Kind() == constant.String {
				if sl, ok := types.Unalias(vr.Type()).Underlying().(*types.Slice); ok {
					s := constant.StringVal(av.Value)
					lit := e.mkStrLit(s)
					tn := "GT_" + mangle(vr.Pkg().Name()+"_"+vr.Name())
					e.declare(tn, e.arrSort(e.sortOf(sl.Elem())))
					e.axioms = append(e.axioms, eq(tn, sx("s_arr", lit)))
					ln := e.ilit(fmt.Sprint(len(s)))
					e.axioms = append(e.axioms, and(eq(sx("l_len", n), ln), eq(sx("l_cap", n), ln), eq(sx("l_off", n), e.izero()), e.lt(e.izero(), sx("l_ref", n))))
					e.tables[vr] = tn
				}
			}
			return
		}
		if fn := e.staticCallee(x); fn != nil && (fn.FullName() == "errors.New" || fn.FullName() == "fmt.Errorf") {
			// distinct non-nil error values
			e.axioms = append(e.axioms, not(eq(sx("i_tid", n), "0")))
			e.errGlobals = append(e.errGlobals, n)
			for _, o := range e.errGlobals {
				if o != n {
					e.axioms = append(e.axioms, not(eq(o, n)))
				}
			}
		}
	}
}

func (e *Engine) constElems(x *ast.CompositeLit, elem types.Type, pk *Pkg) (string, int, bool) {
	z := e.zero(elem)
	arr := fmt.Sprintf("((as const %s) %s)", e.arrSort(e.sortOf(elem)), z.T)
	idx, max := 0, 0
	for _, el := range x.Elts {
		ve := el
		if kv, ok := el.(*ast.KeyValueExpr); ok {
			tv := pk.Info.Types[kv.Key]
			if tv.Value == nil {
				return "", 0, false
			}
			n, _ := constant.Int64Val(constant.ToInt(tv.Value))
			idx = int(n)
			ve = kv.Value
		}
		tv, ok := pk.Info.Types[ve]
		if !ok || tv.Value == nil {
			return "", 0, false
		}
		v := e.constValue(tv.Value, elem, ve.Pos())
		arr = sx("store", arr, e.ilit(fmt.Sprint(idx)), v.T)
		idx++
		if idx > max {
			max = idx
		}
	}
	return arr, max, true
}

// tableElem: element read of an immutable package-level table.
func (e *Engine) tableElem(x ast.Expr, i Value, rt types.Type) (Value, bool) {
	var id *ast.Ident
	switch y := unparen(x).(type) {
	case *ast.Ident:
		id = y
	case *ast.SelectorExpr:
		if e.pk.Info.Selections[y] == nil {
			id = y.Sel
		}
	}
	if id == nil {
		return Value{}, false
	}
	vr, ok := e.pk.Info.ObjectOf(id).(*types.Var)
	if !ok || vr.Pkg() == nil || vr.Parent() != vr.Pkg().Scope() {
		return Value{}, false
	}
	tn, ok := e.tables[vr]
	if !ok {
		return Value{}, false
	}
	tm := sx("select", tn, e.idx64(i))
	e.assume("true", e.rangeFact(tm, rt))
	return Value{tm, rt}, true
}

// ---------------- standard library stubs ----------------

// packages whose functions never write memory the program can observe through our heaps
var purePkgs = map[string]bool{"strings": true, "bytes": true, "unicode": true, "unicode/utf8": true, "strconv": true, "errors": true,
	"math": true, "math/bits": true, "path": true, "html": true, "net/url": true, "fmt": true, "sort": false, "time": true, "reflect": true,
	"encoding/base64": true, "unicode/utf16": true, "github.com/yuin/goldmark/util": true, "path/filepath": true, "io/fs": true, "slices": false, "math/big": true}

var pureStubs = map[string]bool{}

// functions of pure packages that write through a slice argument
var sliceWriters = map[string]bool{"unicode/utf8.EncodeRune": true, "strconv.AppendInt": true, "strconv.AppendQuote": true, "strconv.AppendUint": true,
	"strconv.AppendFloat": true, "unicode/utf8.AppendRune": true, "(*bytes.Buffer).Read": true, "(*strings.Reader).Read": true, "encoding/base64.(*Encoding).Encode": true}

var nondeterministic = map[string]bool{"time.Now": true, "time.Since": true}

// valuePanics: library calls whose documented panics depend on operand values (not only on static types), with a panic
// value that is not a runtime.Error. A call is then a possible panic site: it must be allowed by the contract, and the
// contract's panicpost clauses are checked against an arbitrary panic value.
var valuePanics = map[string]string{
	"(reflect.Value).FieldByIndex": "panics with a plain string when the index path crosses a nil embedded pointer",
}

// reflectSetters panic on an invalid (zero) Value; whether the Value is valid depends on run-time values (rv_valid).
// Their other documented panics (kind mismatch, unaddressable or unexported operand) are excluded by the static types
// of the bytecode and are part of the trusted base.
var reflectSetters = map[string]bool{"(reflect.Value).Set": true, "(reflect.Value).SetInt": true, "(reflect.Value).SetUint": true,
	"(reflect.Value).SetBool": true, "(reflect.Value).SetFloat": true, "(reflect.Value).SetString": true, "(reflect.Value).SetComplex": true}

// reflectNeedValid: getters that panic on the zero Value whatever the static types are (the zero Value is what
// reflect.ValueOf returns for a nil interface). Checked, like the setters, in units that opt in.
var reflectNeedValid = map[string]bool{"(reflect.Value).Type": true, "(reflect.Value).Interface": true}

// libraryPanic treats the call as a possible panic with an unknown value unless `safe` holds.
func (e *Engine) libraryPanic(st *State, c *ast.CallExpr, full, why, safe string) {
	e.stubsUsed[full+": may panic ("+why+")"] = true
	if e.c.Trusted || e.c.Opts["reflectpanics"] != "checked" && safe != "false" {
		// the validity of reflect operands is an obligation only in units that opt in (opt reflectpanics checked)
		return
	}
	if len(e.c.PanicPost) > 0 && len(e.inlineStack) == 0 {
		if obj := e.resVarObj(e.pk, e.c, "panicval"); obj != nil {
			s2 := st.clone()
			s2.vars[obj] = e.havocValue("libpanic", obj.Type())
			site := e.callSite("panic")
			for i, pp := range e.c.PanicPost {
				e.spec++
				v := e.ev(pp.Expr, s2)
				e.spec--
				e.obligeNamed(st, fmt.Sprintf("panicpost#%d@%d", i, site), "post", sx("or", safe, v.T), c.Pos(), fmt.Sprintf("%s does not panic, or the value of its panic satisfies %q", full, pp.Text), pp.Prop)
			}
		}
	}
	if !e.c.Panics {
		e.oblige(st, "panic", safe, c.Pos(), full+" "+why)
	}
	if safe != "false" {
		e.assume(st.pc, safe) // execution continues only when the call did not panic
	}
}

func (e *Engine) bytesOf(st *State, v Value) (arr, off, ln string) {
	if isString(v.Typ) {
		return sx("s_arr", v.T), sx("s_off", v.T), sx("s_len", v.T)
	}
	sl := types.Unalias(v.Typ).Underlying().(*types.Slice)
	hn := elemHeapName(sl.Elem())
	srt := e.arrSort(e.arrSort(e.sortOf(sl.Elem())))
	h := e.heapGet(st, hn, srt)
	// read-only package tables of this element type: their backing array is the table in every heap
	for vr, tn := range e.tables {
		if tsl, ok := types.Unalias(vr.Type()).Underlying().(*types.Slice); ok && elemHeapName(tsl.Elem()) == hn {
			key := "tbl:" + h + ":" + tn
			if !e.declared[key] {
				e.declared[key] = true
				g := "G_" + mangle(vr.Pkg().Name()+"_"+vr.Name())
				e.assume("true", eq(sx("select", h, sx("l_ref", g)), tn))
			}
		}
	}
	return sx("select", h, sx("l_ref", v.T)), sx("l_off", v.T), sx("l_len", v.T)
}

func (e *Engine) stdStub(full string, c *ast.CallExpr, recv *Value, args []Value, sig *types.Signature, st *State) ([]Value, bool) {
	it := types.Typ[types.Int]
	note := func(s string) { e.stubsUsed[s] = true }
	forallK := func(body func(k string) string) string {
		e.nfresh++
		k := fmt.Sprintf("k!s%d", e.nfresh)
		return fmt.Sprintf("(forall ((%s %s)) %s)", k, e.isort(), body(k))
	}
	switch full {
	case "bytes.IndexByte", "strings.IndexByte":
		note(full + ": -1<=r<len; r>=0 => s[r]==c and no earlier occurrence; r==-1 => c does not occur")
		arr, off, ln := e.bytesOf(st, args[0])
		cb := args[1].T
		if e.bound > 0 {
			return []Value{e.pureUF(full, sig, recv, args, st)[0]}, true
		}
		r := e.fresh("idx", e.isort())
		at := func(k string) string { return sx("select", arr, e.add(off, k)) }
		e.assume(st.pc, and(e.le(e.ilit("-1"), r), e.lt(r, ln)))
		e.assume(st.pc, implies(e.le(e.izero(), r), eq(at(r), cb)))
		e.assume(st.pc, forallK(func(k string) string {
			return fmt.Sprintf("(! %s :pattern (%s))", implies(and(e.le(e.izero(), k), e.lt(k, ite(e.lt(r, e.izero()), ln, r))), not(eq(at(k), cb))), at(k))
		}))
		// the same fact over absolute positions of the backing array (matches reads made through another slice of it)
		e.assume(st.pc, forallK(func(k string) string {
			return fmt.Sprintf("(! %s :pattern (%s))", implies(and(e.le(off, k), e.lt(k, e.add(off, ite(e.lt(r, e.izero()), ln, r)))), not(eq(sx("select", arr, k), cb))), sx("select", arr, k))
		}))
		return []Value{{r, it}}, true
	case "bytes.HasPrefix", "strings.HasPrefix", "bytes.HasSuffix", "strings.HasSuffix", "bytes.Equal":
		note(full + ": exact (length and bytes)")
		a1, o1, l1 := e.bytesOf(st, args[0])
		a2, o2, l2 := e.bytesOf(st, args[1])
		var lenc, start string
		switch {
		case strings.HasSuffix(full, "HasPrefix"):
			lenc, start = e.le(l2, l1), e.izero()
		case strings.HasSuffix(full, "HasSuffix"):
			lenc, start = e.le(l2, l1), e.sub(l1, l2)
		default:
			lenc, start = eq(l1, l2), e.izero()
		}
		var body string
		if lit, ok := e.strLitOf(args[1].T); ok && len(lit) <= 80 {
			var cs []string
			for i := 0; i < len(lit); i++ {
				cs = append(cs, eq(sx("select", a1, e.add(e.add(o1, start), e.ilit(fmt.Sprint(i)))), e.byteLit(int(lit[i]))))
			}
			body = and(cs...)
		} else if tn, n, ok := e.globalBytes(c.Args[1]); ok && n <= 32 {
			var cs []string
			for i := 0; i < n; i++ {
				cs = append(cs, eq(sx("select", a1, e.add(e.add(o1, start), e.ilit(fmt.Sprint(i)))), sx("select", tn, e.ilit(fmt.Sprint(i)))))
			}
			body = and(cs...)
		} else {
			// a fixed bound-variable name: two comparisons of the same operands are then the same formula syntactically
			k := "k!beq"
			body = fmt.Sprintf("(forall ((%s %s)) %s)", k, e.isort(),
				implies(and(e.le(e.izero(), k), e.lt(k, l2)), eq(sx("select", a1, e.add(e.add(o1, start), k)), sx("select", a2, e.add(o2, k)))))
		}
		return []Value{{and(lenc, body), types.Typ[types.Bool]}}, true
	case "bytes.Index", "strings.Index", "bytes.LastIndex", "strings.LastIndex", "strings.LastIndexByte", "bytes.LastIndexByte", "strings.IndexAny", "bytes.IndexAny", "strings.LastIndexAny", "strings.IndexRune", "bytes.IndexRune", "strings.IndexFunc", "bytes.IndexFunc":
		note(full + ": range facts only: -1 <= r, r + len(sep) <= len(s) (r < len(s) for byte/any forms)")
		_, _, l1 := e.bytesOf(st, args[0])
		if e.bound > 0 {
			return e.pureUF(full, sig, recv, args, st), true
		}
		r := e.pureUF(full, sig, recv, args, st)[0]
		sepLen := e.ilit("1")
		if strings.HasSuffix(full, ".Index") || strings.HasSuffix(full, ".LastIndex") {
			_, _, sepLen = e.bytesOf(st, args[1])
		}
		e.assume(st.pc, and(e.le(e.ilit("-1"), r.T), implies(e.le(e.izero(), r.T), e.le(e.add(r.T, sepLen), l1))))
		if strings.HasSuffix(full, ".Index") {
			// an occurrence at r matches sep
			a1, o1, _ := e.bytesOf(st, args[0])
			if lit, ok := e.strLitOf(args[1].T); ok && len(lit) <= 16 {
				var cs []string
				for i := 0; i < len(lit); i++ {
					cs = append(cs, eq(sx("select", a1, e.add(e.add(o1, r.T), e.ilit(fmt.Sprint(i)))), e.byteLit(int(lit[i]))))
				}
				e.assume(st.pc, implies(e.le(e.izero(), r.T), and(cs...)))
			}
		}
		return []Value{r}, true
	case "unicode/utf8.DecodeRune", "unicode/utf8.DecodeRuneInString", "unicode/utf8.DecodeLastRune", "unicode/utf8.DecodeLastRuneInString":
		note(full + ": len==0 => (RuneError,0); else 1<=size<=min(4,len); first(last) byte <0x80 => (that byte,1); 0<=r<=0x10FFFF")
		arr, off, ln := e.bytesOf(st, args[0])
		if e.bound > 0 {
			return e.pureUF(full, sig, recv, args, st), true
		}
		res := e.pureUF(full, sig, recv, args, st)
		r, size := res[0], res[1]
		pos := off
		if strings.Contains(full, "Last") {
			pos = e.sub(e.add(off, ln), e.ilit("1"))
		}
		b0 := sx("select", arr, pos)
		e.assume(st.pc, ite(eq(ln, e.izero()), and(eq(r.T, "65533"), eq(size.T, "0")),
			and(sx("<=", "1", size.T), sx("<=", size.T, "4"), sx("<=", size.T, ln), sx("<=", "0", r.T), sx("<=", r.T, "1114111"),
				ite(sx("<", b0, "128"), and(eq(r.T, b0), eq(size.T, "1")), sx(">=", r.T, "128")))))
		// size agrees with the magnitude of the decoded rune (RuneError U+FFFD comes with size 1 or 3)
		e.assume(st.pc, implies(not(eq(ln, e.izero())), and(
			implies(and(sx(">=", r.T, "128"), sx("<", r.T, "2048")), eq(size.T, "2")),
			implies(and(sx(">=", r.T, "2048"), sx("<", r.T, "65536"), not(eq(r.T, "65533"))), eq(size.T, "3")),
			implies(eq(r.T, "65533"), or(eq(size.T, "1"), eq(size.T, "3"))),
			implies(sx(">=", r.T, "65536"), eq(size.T, "4")))))
		return res, true
	case "unicode/utf8.RuneLen":
		note(full + ": -1 or 1..4, by the magnitude of the rune (surrogates and out-of-range give -1)")
		res := e.pureUF(full, sig, recv, args, st)
		a := args[0].T
		e.assume(st.pc, and(sx("<=", "-1", res[0].T), sx("<=", res[0].T, "4"), not(eq(res[0].T, "0")),
			implies(and(sx("<=", "0", a), sx("<", a, "128")), eq(res[0].T, "1")),
			implies(and(sx("<=", "128", a), sx("<", a, "2048")), eq(res[0].T, "2")),
			implies(and(sx("<=", "2048", a), sx("<", a, "55296")), eq(res[0].T, "3")),
			implies(and(sx("<=", "57344", a), sx("<", a, "65536")), eq(res[0].T, "3")),
			implies(and(sx("<=", "65536", a), sx("<=", a, "1114111")), eq(res[0].T, "4"))))
		return res, true
	case "unicode/utf8.RuneCountInString", "unicode/utf8.RuneCount":
		note(full + ": 0 <= n <= len; n == 0 iff len == 0")
		arr, off, ln := e.bytesOf(st, args[0])
		var res []Value
		if full == "unicode/utf8.RuneCountInString" && !e.bv {
			// the count is a function of the bytes: runecnt(arr, off, n) is the number of runes in arr[off:off+n], the
			// same function the executor steps once per iteration of a range over the string (Go spec: a range clause
			// and RuneCountInString both treat an erroneous or short encoding as one rune of width 1)
			e.declareFun("runecnt", []string{"(Array Int Int)", e.isort(), e.isort()}, e.isort())
			res = []Value{{sx("runecnt", arr, off, ln), sig.Results().At(0).Type()}}
			note(full + ": the number of iterations of a range over the string")
		} else {
			res = e.pureUF(full, sig, recv, args, st)
		}
		e.assume(st.pc, and(sx("<=", "0", res[0].T), sx("<=", res[0].T, ln), implies(sx(">", ln, "0"), sx(">", res[0].T, "0")), sx("<=", ln, sx("*", "4", res[0].T))))
		return res, true
	case "errors.Is":
		note(full + ": an error matches a target it is equal to (the rest of the chain walk is an uninterpreted function)")
		res := e.pureUF(full, sig, recv, args, st)
		if len(args) == 2 && e.bound == 0 {
			e.assume(st.pc, implies(and(e.equal(args[0], args[1], c.Pos()), not(e.isNil(args[0]))), res[0].T))
			e.assume(st.pc, implies(e.isNil(args[0]), not(res[0].T)))
		}
		return res, true
	case "errors.New", "fmt.Errorf":
		note(full + ": result is non-nil")
		if e.bound > 0 {
			return e.pureUF(full, sig, recv, args, st), true
		}
		r := e.havocValue("err", sig.Results().At(0).Type())
		e.assume(st.pc, not(eq(sx("i_tid", r.T), "0")))
		return []Value{r}, true
	case "strings.Contains", "bytes.Contains", "strings.ContainsRune", "bytes.ContainsRune", "strings.ContainsAny", "bytes.ContainsAny":
		note(full + ": a true result implies the haystack is at least as long as the needle (non-empty for the rune/any forms)")
		res := e.pureUF(full, sig, recv, args, st)
		_, _, l1 := e.bytesOf(st, args[0])
		need := e.ilit("1")
		if strings.HasSuffix(full, ".Contains") {
			_, _, need = e.bytesOf(st, args[1])
		}
		if e.bound == 0 {
			e.assume(st.pc, implies(res[0].T, e.le(need, l1)))
		}
		return res, true
	case "github.com/yuin/goldmark/util.IndentWidth":
		// goldmark util.IndentWidth(bs, currentPos): "calculate an indent width for the given line" - it counts the leading
		// spaces and tabs of bs: pos is their number, width their visual width
		note(full + ": 0 <= pos <= len(bs), 0 <= width, pos <= width; bs[pos] (if any) is neither space nor tab; no effect on memory")
		res := e.pureUF(full, sig, recv, args, st)
		if e.bound == 0 && len(res) == 2 {
			arr, off, ln := e.bytesOf(st, args[0])
			w, p := res[0].T, res[1].T
			at := sx("select", arr, e.add(off, p))
			e.assume(st.pc, and(e.le(e.izero(), p), e.le(p, ln), e.le(e.izero(), w), e.le(p, w),
				implies(e.lt(p, ln), and(not(eq(at, "32")), not(eq(at, "9"))))))
		}
		return res, true
	case "net/url.Parse", "net/url.ParseRequestURI":
		note(full + ": returns a non-nil *URL when the error is nil")
		res := e.havocResultsPure(st, sig, full)
		if len(res) == 2 {
			e.assume(st.pc, implies(eq(sx("i_tid", res[1].T), "0"), e.lt(e.izero(), res[0].T)))
		}
		return res, true
	case "path.Join", "path/filepath.Join":
		// a deterministic function of its elements (the variadic slice that carries them has no identity)
		if len(c.Args) > 0 && !c.Ellipsis.IsValid() && len(args) == 1 {
			if sl, ok := types.Unalias(args[0].Typ).Underlying().(*types.Slice); ok {
				note(full + ": opaque deterministic function of its elements (no heap effect)")
				hn := elemHeapName(sl.Elem())
				srt := e.arrSort(e.arrSort(e.sortOf(sl.Elem())))
				h := e.heapGet(st, hn, srt)
				var ts, ss []string
				for i := range c.Args {
					if e.spec > 0 {
						// in a specification no slice is allocated for the variadic arguments: take the expressions themselves
						ts = append(ts, e.coerce(e.ev(c.Args[i], st), sl.Elem(), st).T)
					} else {
						ts = append(ts, sx("select", sx("select", h, sx("l_ref", args[0].T)), e.add(sx("l_off", args[0].T), e.ilit(fmt.Sprint(i)))))
					}
					ss = append(ss, e.sortOf(sl.Elem()))
				}
				name := fmt.Sprintf("uf_%s_%d", mangle(full), len(ts))
				e.declareFun(name, ss, e.sortOf(sig.Results().At(0).Type()))
				tm := sx(name, ts...)
				if e.bound == 0 {
					e.assume("true", e.rangeFact(tm, sig.Results().At(0).Type()))
				}
				return []Value{{tm, sig.Results().At(0).Type()}}, true
			}
		}
	case "encoding/base64.NewEncoder":
		// "NewEncoder returns a new base64 stream encoder. Data written to the returned writer will be encoded using enc
		// and then written to w. [...] the caller must Close the returned encoder to flush any partially written blocks."
		// The encoder is modelled as a view of the underlying abstract writer: its writes and its flush are writes (of
		// some bytes) to w that may fail; once a write has failed, Write and Close return that error without writing.
		note(full + ": the encoder writes to the underlying writer; Write/Close report the underlying writer's first error; Close returns nil only if no write failed")
		if len(args) == 2 {
			r := e.havocValue("b64enc", sig.Results().At(0).Type())
			e.assume(st.pc, and(not(eq(sx("i_tid", r.T), "0")), eq(sx("i_val", r.T), e.writerKey(args[1]))))
			if e.b64enc == nil {
				e.b64enc = map[string]bool{}
			}
			e.b64enc[r.T] = true
			return []Value{r}, true
		}
	case "path.IsAbs":
		note(full + `: "reports whether the path is absolute" - exactly: it begins with a slash`)
		arr, off, ln := e.bytesOf(st, args[0])
		return []Value{{and(e.lt(e.izero(), ln), eq(sx("select", arr, off), "47")), types.Typ[types.Bool]}}, true
	case "path.Ext", "path/filepath.Ext":
		note(full + `: "the suffix beginning at the final dot in the final slash-separated element of path; it is empty if there is no dot" - a suffix of the argument`)
		res := e.pureUF(full, sig, recv, args, st)
		if e.bound == 0 {
			e.assume(st.pc, e.le(sx("s_len", res[0].T), sx("s_len", args[0].T)))
		}
		return res, true
	case "slices.Contains", "slices.Index":
		note(full + ": deterministic function of the slice contents and the value (no heap effect)")
		return e.pureUF(full, sig, recv, args, st), true
	case "strings.ToLower", "strings.ToUpper", "strings.TrimSpace", "strings.Trim", "strings.TrimLeft", "strings.TrimRight", "strings.TrimPrefix", "strings.TrimSuffix", "bytes.TrimSpace":
		res := e.pureUF(full, sig, recv, args, st)
		if strings.Contains(full, "Trim") {
			note(full + ": len(result) <= len(arg)")
			var rl, al string
			if isString(res[0].Typ) {
				rl, al = sx("s_len", res[0].T), sx("s_len", args[0].T)
			} else {
				rl, al = sx("l_len", res[0].T), sx("l_len", args[0].T)
			}
			e.assume(st.pc, e.le(rl, al))
		}
		return res, true
	case "(*strings.Builder).WriteString", "(*strings.Builder).WriteByte", "(*strings.Builder).WriteRune", "(*strings.Builder).Write",
		"(*bytes.Buffer).WriteString", "(*bytes.Buffer).WriteByte", "(*bytes.Buffer).WriteRune", "(*bytes.Buffer).Write", "(*strings.Builder).Grow", "(*bytes.Buffer).Grow",
		"(*strings.Builder).Reset", "(*bytes.Buffer).Reset":
		note("strings.Builder/bytes.Buffer writes: never fail (error result nil), content not tracked")
		var out []Value
		for i := 0; i < sig.Results().Len(); i++ {
			rt := sig.Results().At(i).Type()
			if _, isI := rt.Underlying().(*types.Interface); isI {
				out = append(out, e.zero(rt))
			} else {
				v := e.havocValue("bw", rt)
				out = append(out, v)
			}
		}
		return out, true
	case "sync/atomic.LoadInt32", "sync/atomic.LoadInt64", "sync/atomic.LoadUint32", "sync/atomic.LoadUint64", "sync/atomic.LoadPointer":
		note(full + ": reads memory another goroutine may write: arbitrary result, no effect")
		return e.havocResultsPure(st, sig, full), true
	case "io.WriteString":
		return e.writerWrite(c, args[0], args[1], st), true
	case "strconv.ParseInt", "strconv.ParseUint", "strconv.ParseFloat", "strconv.Atoi", "strconv.ParseBool", "strconv.ParseComplex":
		note(full + `: "The errors that ` + strings.TrimPrefix(full, "strconv.") + ` returns have concrete type *NumError" (non-nil pointer)`)
		res := e.pureUF(full, sig, recv, args, st)
		if e.bound == 0 {
			errv := res[len(res)-1]
			// find the *strconv.NumError type through the function's package
			if fn := e.staticCallee(c); fn != nil {
				if obj := fn.Pkg().Scope().Lookup("NumError"); obj != nil {
					pt := types.NewPointer(obj.Type())
					u := e.unbox(errv.T, pt)
					e.assume(st.pc, implies(not(eq(sx("i_tid", errv.T), "0")), and(eq(sx("i_tid", errv.T), fmt.Sprint(e.tid(pt))), e.lt(e.izero(), u.T))))
				}
			}
		}
		return res, true
	case "sort.Strings", "sort.Slice", "sort.Sort", "sort.Ints", "sort.SliceStable", "sort.Stable", "slices.Sort", "slices.SortFunc":
		note(full + ": permutes the slice in place (every element afterwards is one of the elements before; length unchanged)")
		if len(args) > 0 {
			if sl, ok := types.Unalias(args[0].Typ).Underlying().(*types.Slice); ok {
				hn := elemHeapName(sl.Elem())
				srt := e.arrSort(e.arrSort(e.sortOf(sl.Elem())))
				h0 := e.heapGet(st, hn, srt)
				e.havocHeap(st, hn)
				if e.bound == 0 && e.spec == 0 {
					h1 := e.heapGet(st, hn, srt)
					ref, off, ln := sx("l_ref", args[0].T), sx("l_off", args[0].T), sx("l_len", args[0].T)
					e.nfresh++
					pi := fmt.Sprintf("perm!%d", e.nfresh)
					e.declareFun(pi, []string{e.isort()}, e.isort())
					k := "k!p"
					// inside the slice: new[k] = old[perm(k)] with perm(k) inside the slice; other arrays are untouched
					nk := e.add(off, k)
					ok := e.add(off, sx(pi, k))
					e.assume(st.pc, fmt.Sprintf("(forall ((%s %s)) (! (=> (and %s %s) (and %s %s (= (select (select %s %s) %s) (select (select %s %s) %s)))) :pattern ((select (select %s %s) %s))))",
						k, e.isort(), e.le(e.izero(), k), e.lt(k, ln), e.le(e.izero(), sx(pi, k)), e.lt(sx(pi, k), ln), h1, ref, nk, h0, ref, ok, h1, ref, nk))
					e.assume(st.pc, fmt.Sprintf("(forall ((r!p %s)) (! (=> (not (= r!p %s)) (= (select %s r!p) (select %s r!p))) :pattern ((select %s r!p))))", e.isort(), ref, h1, h0, h1))
				}
				return nil, true
			}
		}
		e.havocAll(st)
		return nil, true
	}
	// generic: pure packages
	pkgPath := ""
	if fn := e.staticCallee(c); fn != nil && fn.Pkg() != nil {
		pkgPath = fn.Pkg().Path()
	} else if i := strings.LastIndex(full, "."); i >= 0 {
		pkgPath = strings.TrimLeft(full[:i], "(*")
		if j := strings.Index(pkgPath, ")"); j >= 0 {
			pkgPath = pkgPath[:j]
		}
		// method: (*pkg.Type).M or (pkg.Type).M
		if strings.HasPrefix(full, "(") {
			inner := full[1:strings.Index(full, ")")]
			inner = strings.TrimPrefix(inner, "*")
			if k := strings.LastIndex(inner, "."); k >= 0 {
				pkgPath = inner[:k]
			}
		}
	}
	if _, loaded := e.w.Pkgs[pkgPath]; loaded {
		return nil, false
	}
	if why, ok := valuePanics[full]; ok && e.spec == 0 && e.bound == 0 {
		e.libraryPanic(st, c, full, why, "false")
	}
	if reflectNeedValid[full] && recv != nil && e.spec == 0 && e.bound == 0 {
		e.declareFun("rv_valid", []string{e.sortOf(recv.Typ)}, "Bool")
		e.libraryPanic(st, c, full, "panics with a *reflect.ValueError on the zero Value (e.g. reflect.ValueOf(nil))", sx("rv_valid", recv.T))
	}
	if reflectSetters[full] && recv != nil && e.spec == 0 && e.bound == 0 {
		e.declareFun("rv_valid", []string{e.sortOf(recv.Typ)}, "Bool")
		e.libraryPanic(st, c, full, "panics with a *reflect.ValueError on the zero Value (e.g. Elem of a nil pointer)", sx("rv_valid", recv.T))
	}
	if purePkgs[pkgPath] {
		if sliceWriters[full] {
			for _, a := range args {
				if sl, ok := types.Unalias(a.Typ).Underlying().(*types.Slice); ok {
					e.havocHeap(st, elemHeapName(sl.Elem()))
				}
			}
		}
		if nondeterministic[full] || e.returnsRef(sig) && e.bound == 0 && e.spec == 0 {
			note(full + ": opaque (no heap effect; fresh results)")
			return e.havocResultsPure(st, sig, full), true
		}
		note(full + ": opaque deterministic function of its arguments (no heap effect)")
		return e.pureUF(full, sig, recv, args, st), true
	}
	return nil, false
}

func (e *Engine) returnsRef(sig *types.Signature) bool {
	for i := 0; i < sig.Results().Len(); i++ {
		switch types.Unalias(sig.Results().At(i).Type()).Underlying().(type) {
		case *types.Slice, *types.Pointer, *types.Map, *types.Chan:
			return true
		}
	}
	return false
}

func (e *Engine) havocResultsPure(st *State, sig *types.Signature, full string) []Value {
	var out []Value
	for i := 0; i < sig.Results().Len(); i++ {
		t := sig.Results().At(i).Type()
		v := e.havocValue(mangle(full)+"_r", t)
		switch types.Unalias(t).Underlying().(type) {
		case *types.Slice:
			// freshly allocated result
			r := e.alloc(st)
			e.assume("true", implies(not(eq(sx("l_ref", v.T), e.izero())), eq(sx("l_ref", v.T), r)))
		default:
			e.refBound(st, v)
		}
		out = append(out, v)
	}
	return out
}

// pureUF: results are uninterpreted functions of the arguments (and of the byte contents of slice arguments).
func (e *Engine) pureUF(full string, sig *types.Signature, recv *Value, args []Value, st *State) []Value {
	var as, ss []string
	add := func(v Value) {
		as = append(as, v.T)
		ss = append(ss, e.sortOf(v.Typ))
		if sl, ok := types.Unalias(v.Typ).Underlying().(*types.Slice); ok {
			hn := elemHeapName(sl.Elem())
			srt := e.arrSort(e.arrSort(e.sortOf(sl.Elem())))
			h := e.heapGet(st, hn, srt)
			as = append(as, sx("select", h, sx("l_ref", v.T)))
			ss = append(ss, e.arrSort(e.sortOf(sl.Elem())))
		}
	}
	if recv != nil {
		add(*recv)
	}
	for _, a := range args {
		add(a)
	}
	var out []Value
	for i := 0; i < sig.Results().Len(); i++ {
		t := sig.Results().At(i).Type()
		name := fmt.Sprintf("uf_%s_%d_%s", mangle(full), i, mangle(strings.Join(ss, "")))
		if len(name) > 100 {
			name = name[:100]
		}
		e.declareFun(name, ss, e.sortOf(t))
		tm := name
		if len(as) > 0 {
			tm = sx(name, as...)
		}
		if e.bound == 0 {
			e.assume("true", e.rangeFact(tm, t))
		}
		out = append(out, Value{tm, t})
	}
	return out
}

// globalBytes resolves an expression naming an immutable package-level []byte to its table constant and length.
func (e *Engine) globalBytes(x ast.Expr) (string, int, bool) {
	id, ok := unparen(x).(*ast.Ident)
	if !ok {
		return "", 0, false
	}
	vr, ok := e.pk.Info.ObjectOf(id).(*types.Var)
	if !ok || vr.Pkg() == nil || vr.Parent() != vr.Pkg().Scope() {
		return "", 0, false
	}
	tn, ok := e.tables[vr]
	if !ok {
		return "", 0, false
	}
	init, pk := e.findGlobalInit(vr)
	if call, ok := init.(*ast.CallExpr); ok && len(call.Args) == 1 {
		if av, ok := pk.Info.Types[call.Args[0]]; ok && av.Value != nil && av.Value.Kind() == constant.String {
			return tn, len(constant.StringVal(av.Value)), true
		}
	}
	return "", 0, false
}

// ---------------- interface method stubs ----------------

func (e *Engine) ifaceStubPure(c *ast.CallExpr) bool {
	se, ok := unparen(c.Fun).(*ast.SelectorExpr)
	if !ok {
		return false
	}
	sel := e.pk.Info.Selections[se]
	if sel == nil || sel.Kind() != types.MethodVal {
		return false
	}
	if _, isIface := types.Unalias(sel.Recv()).Underlying().(*types.Interface); !isIface {
		return false
	}
	return e.pureMethod(se.Sel.Name)
}

func (e *Engine) ifaceStubMods(c *ast.CallExpr) ([]string, bool) {
	se, ok := unparen(c.Fun).(*ast.SelectorExpr)
	if !ok {
		return nil, false
	}
	sel := e.pk.Info.Selections[se]
	if sel == nil {
		return nil, false
	}
	rt := types.TypeString(sel.Recv(), nil)
	if isWriterType(rt) && (se.Sel.Name == "WriteString" || se.Sel.Name == "Write" || se.Sel.Name == "WriteByte") {
		return []string{"W_out", "W_failed", "W_err"}, true
	}
	if se.Sel.Name == "Error" || se.Sel.Name == "String" {
		return []string{}, true
	}
	return nil, false
}

func isWriterType(rt string) bool {
	return strings.HasSuffix(rt, "strWriter") || rt == "io.Writer" || strings.HasSuffix(rt, "io.StringWriter")
}

func (e *Engine) ifaceStub(c *ast.CallExpr, se *ast.SelectorExpr, recv Value, args []Value, sig *types.Signature, st *State) ([]Value, bool) {
	sel := e.pk.Info.Selections[se]
	rt := types.TypeString(sel.Recv(), nil)
	if e.b64enc[recv.T] && (se.Sel.Name == "Write" || se.Sel.Name == "Close") {
		return e.b64Op(c, se.Sel.Name, recv, st), true
	}
	if isWriterType(rt) && (se.Sel.Name == "WriteString" || se.Sel.Name == "Write") {
		return e.writerWrite(c, recv, args[0], st), true
	}
	if (se.Sel.Name == "Error" || se.Sel.Name == "String") && sig.Params().Len() == 0 {
		e.stubsUsed["Error()/String() methods: no effect on tracked memory; deterministic result"] = true
		return e.pureUF("iface."+se.Sel.Name, sig, &recv, nil, st), true
	}
	return nil, false
}

// abstract writer (DESIGN 2.4): ghost state W_out (sequence id per writer) and W_failed.
func (e *Engine) writerWrite(c *ast.CallExpr, w Value, data Value, st *State) []Value {
	e.stubsUsed["io.Writer/strWriter Write*: requires the writer has not failed; err==nil => output extended by exactly the bytes, n==len; err!=nil => writer marked failed (abstract writer contract)"] = true
	e.declareWriterTheory()
	key := e.writerKey(w)
	outS := "(Array Int BSeq)"
	fs := "(Array Int Bool)"
	ho := e.heapGet(st, "W_out", outS)
	if e.infallibleWriter(w) {
		// *strings.Builder / *bytes.Buffer: writes always succeed
		e.stubsUsed["strings.Builder/bytes.Buffer writes: never fail (error result nil)"] = true
		arr, off, ln := e.bytesOf(st, data)
		e.heapSet(st, "W_out", outS, sx("store", ho, key, sx("cat", sx("select", ho, key), sx("bseq", arr, off, e.add(off, ln)))))
		return []Value{{ln, types.Typ[types.Int]}, e.zero(types.Universe.Lookup("error").Type())}
	}
	hf := e.heapGet(st, "W_failed", fs)
	e.obligeNamed(st, fmt.Sprintf("pre:write-after-failure#%d", e.callSite("write")), "pre", not(sx("select", hf, key)), c.Pos(), "no write after a failed write", e.c.Opts["writerprop"])
	arr, off, ln := e.bytesOf(st, data)
	if _, isSlice := types.Unalias(data.Typ).Underlying().(*types.Slice); isSlice {
		// ground instances of "a short range is the concatenation of its bytes" (consequences of the bseq unit/split laws)
		for n := 2; n <= 4; n++ {
			t := sx("unit", sx("select", arr, e.add(off, fmt.Sprint(n-1))))
			for k := n - 2; k >= 0; k-- {
				t = sx("cat", sx("unit", sx("select", arr, e.add(off, fmt.Sprint(k)))), t)
			}
			e.assume(st.pc, implies(eq(ln, fmt.Sprint(n)), eq(sx("bseq", arr, off, e.add(off, ln)), t)))
		}
	}
	errv := e.havocValue("werr", types.Universe.Lookup("error").Type())
	n := e.havocValue("wn", types.Typ[types.Int])
	failed := not(eq(sx("i_tid", errv.T), "0"))
	e.assume(st.pc, implies(not(failed), eq(n.T, ln)))
	e.assume(st.pc, and(e.le(e.izero(), n.T), e.le(n.T, ln)))
	newOut := sx("cat", sx("select", ho, key), sx("bseq", arr, off, e.add(off, ln)))
	e.heapSet(st, "W_out", outS, sx("store", ho, key, ite(failed, sx("select", ho, key), newOut)))
	e.heapSet(st, "W_failed", fs, sx("store", hf, key, failed))
	he := e.heapGet(st, "W_err", "(Array Int Ifc)")
	e.heapSet(st, "W_err", "(Array Int Ifc)", sx("store", he, key, ite(failed, errv.T, sx("select", he, key))))
	st.vars[lastWriteErr] = errv
	return []Value{n, errv}
}

var lastWriteErr = &synth{"lastWriteErr"}

// infallibleWriter: the value is statically known to be a *strings.Builder or *bytes.Buffer, whose writes never fail.
func (e *Engine) infallibleWriter(w Value) bool {
	isBuf := func(s string) bool {
		return strings.Contains(s, "Pstrings_Builder") || strings.Contains(s, "Pbytes_Buffer")
	}
	if ts := types.TypeString(w.Typ, nil); ts == "*strings.Builder" || ts == "*bytes.Buffer" {
		return true
	}
	if strings.HasPrefix(w.T, "(mk-ifc ") {
		a := splitArgs(w.T[8 : len(w.T)-1])
		if len(a) == 2 && strings.HasPrefix(a[1], "(box_") && isBuf(strings.SplitN(a[1], " ", 2)[0]) {
			return true
		}
	}
	return false
}

// writerKey identifies the abstract writer behind a value (interface payload or pointer).
func (e *Engine) writerKey(w Value) string {
	if e.infallibleWriter(w) {
		// builders and buffers never fail; they share one ghost key outside the range of interface payloads (>= 0)
		return "(- 1)"
	}
	if _, ok := types.Unalias(w.Typ).Underlying().(*types.Interface); ok {
		return sx("i_val", w.T)
	}
	return w.T
}

func (e *Engine) declareWriterTheory() {
	if e.declared["BSeq"] {
		return
	}
	e.declared["BSeq"] = true
	e.sortDecls = append(e.sortDecls, "(declare-sort BSeq 0)",
		"(declare-fun cat (BSeq BSeq) BSeq)", "(declare-fun eps () BSeq)",
		"(declare-fun bseq ((Array Int Int) Int Int) BSeq)",
		"(declare-fun fhint (Int) Bool)", "(declare-fun fsplit (Int Int Int) Bool)",
		"(assert (forall ((a BSeq)) (! (= (cat a eps) a) :pattern ((cat a eps)))))",
		"(assert (forall ((a BSeq)) (! (= (cat eps a) a) :pattern ((cat eps a)))))",
		"(assert (forall ((a BSeq) (b BSeq) (c BSeq)) (! (= (cat (cat a b) c) (cat a (cat b c))) :weight 6 :pattern ((cat (cat a b) c)))))",
		"(assert (forall ((a (Array Int Int)) (i Int)) (! (= (bseq a i i) eps) :pattern ((bseq a i i)))))",
		"(declare-fun unit (Int) BSeq)", "(declare-fun fknown (BSeq) Bool)",
		// a range splits at any point in between (instances are seeded by `split lo, mid, hi` with absolute indexes)
		"(assert (forall ((a (Array Int Int)) (i Int) (j Int) (k Int)) (! (=> (and (<= i j) (<= j k) (fsplit i j k)) (= (bseq a i k) (cat (bseq a i j) (bseq a j k)))) :pattern ((bseq a i k) (fsplit i j k)))))",
		// bseq(a,i,j) depends only on a[i..j): a store outside the range does not change it
		"(assert (forall ((a (Array Int Int)) (i Int) (v Int) (lo Int) (hi Int)) (! (=> (or (<= hi i) (< i lo)) (= (bseq (store a i v) lo hi) (bseq a lo hi))) :pattern ((bseq (store a i v) lo hi)))))",
		"(assert (forall ((a (Array Int Int)) (i Int) (j Int)) (! (=> (= j (+ i 1)) (= (bseq a i j) (unit (select a i)))) :pattern ((bseq a i j)))))",
		"(assert (forall ((a (Array Int Int)) (i Int) (j Int) (k Int)) (! (=> (and (<= i j) (<= j k)) (= (cat (bseq a i j) (bseq a j k)) (bseq a i k))) :pattern ((cat (bseq a i j) (bseq a j k))))))")
}

// b64Op: Write or Close of a base64 stream encoder created by the NewEncoder stub (see there).
func (e *Engine) b64Op(c *ast.CallExpr, name string, enc Value, st *State) []Value {
	e.declareWriterTheory()
	key := sx("i_val", enc.T)
	outS, fs := "(Array Int BSeq)", "(Array Int Bool)"
	ho := e.heapGet(st, "W_out", outS)
	hf := e.heapGet(st, "W_failed", fs)
	he := e.heapGet(st, "W_err", "(Array Int Ifc)")
	already := sx("select", hf, key)
	errv := e.havocValue("b64err", types.Universe.Lookup("error").Type())
	failedNow := not(eq(sx("i_tid", errv.T), "0"))
	// after an earlier failure: the same error again, nothing written; otherwise some bytes are written, or the write fails
	e.assume(st.pc, implies(already, eq(errv.T, sx("select", he, key))))
	extra := e.fresh("b64out", "BSeq")
	e.heapSet(st, "W_out", outS, sx("store", ho, key, ite(or(already, failedNow), sx("select", ho, key), sx("cat", sx("select", ho, key), extra))))
	e.heapSet(st, "W_failed", fs, sx("store", hf, key, or(already, failedNow)))
	e.heapSet(st, "W_err", "(Array Int Ifc)", sx("store", he, key, ite(already, sx("select", he, key), ite(failedNow, errv.T, sx("select", he, key)))))
	st.vars[lastWriteErr] = errv
	if name == "Close" {
		return []Value{errv}
	}
	n := e.havocValue("b64n", types.Typ[types.Int])
	e.assume(st.pc, e.le(e.izero(), n.T))
	return []Value{n, errv}
}
