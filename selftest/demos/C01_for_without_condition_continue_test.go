package scriggo

import (
	"bytes"
	"context"
	"testing"
	"time"

	"github.com/open2b/scriggo/native"
)

// A `for` statement without a condition: `continue` must run the post statement, and the
// statement must leave the emitter's stack of continue targets as it found it (a `continue`
// of the enclosing loop placed after it must not jump into it).
func runForDemo(t *testing.T, src string) string {
	t.Helper()
	var out bytes.Buffer
	pkgs := native.Packages{"p": native.Package{Name: "p", Declarations: native.Declarations{
		"Put": func(n int) { out.WriteString(string(rune('0' + n))) },
	}}}
	program, err := Build(Files{"main.go": []byte(src)}, &BuildOptions{Packages: pkgs})
	if err != nil {
		t.Fatal(err)
	}
	ctx, cancel := context.WithTimeout(context.Background(), 2*time.Second)
	defer cancel()
	if err = program.Run(&RunOptions{Context: ctx}); err != nil {
		t.Fatalf("run: %v (output so far %q)", err, out.String())
	}
	return out.String()
}

func TestVerifDemoForNoConditionContinueRunsPost(t *testing.T) {
	got := runForDemo(t, `package main
import "p"
func main() {
	n := 0
	for i := 0; ; i++ {
		n++
		if n > 8 { p.Put(9); return }
		if i < 3 { continue }
		break
	}
	p.Put(n)
}`)
	if got != "4" {
		t.Fatalf("got %q, gc prints 4", got)
	}
}

func TestVerifDemoForNoConditionPopsContinueTarget(t *testing.T) {
	got := runForDemo(t, `package main
import "p"
func main() {
	n := 0
	for i := 0; i < 3; i++ {
		for { break }
		n++
		if n > 8 { p.Put(9); return }
		if i < 5 { continue }
		p.Put(7)
	}
	p.Put(n)
}`)
	if got != "3" {
		t.Fatalf("got %q, gc prints 3", got)
	}
}
